"""C03 - Every request gets exactly one well-formed WSGI response."""
import ast

from ..astutil import (walk_shallow, dotted, call_attr, short, src, stmt_of, names_loaded, is_const, enclosing,
                       compare_parts, strip_not, const, bool_operands)
from ..loader import AnalysisError
from ..report import Sub
from .. import rules as T

ID = 'C03'
TECHNIQUE = 'CFG path counting (call-once), dominators, guarded abstract types of returns, paired-statement rules, partial evaluation'
DECIDED = ('(a) on every path of Ombott.wsgi to a return, start_response is called exactly once: once at the end of the try '
           'body with nothing that can raise after it, or once in the catch-all handler with sys.exc_info(); (b) in _handle '
           'the after_request emission sits in a finally whose try encloses the before_request emission, routing and the '
           'handler call, before_request precedes routing, add_hook prepends the hooks of the reversed set (= {after_request}) '
           'and appends the others, emit iterates a copy in list order; (c) _handle turns HTTPResponse into the response and '
           'any other Exception into HTTPError(500), re-raising only KeyboardInterrupt/SystemExit/MemoryError; wsgi\'s '
           'catch-all returns a one-element bytes list after a 500 start_response; (d) every return of _cast is [], a '
           'one-element list of a value known to be bytes on that path, a file wrapper, or a bytes-producing iterator '
           '(chain under an isinstance(first, bytes) guard, an encoding generator under isinstance(first, str), optionally '
           'wrapped in _closeiter); (e) each Content-Length the framework sets is paired with the return of exactly the '
           'object whose len() it took (after encoding), or 0 with []; (f) for status in {100,101,204,304,...} or HEAD the '
           'body is replaced by an empty list before start_response and the replaced body\'s close() is called once on that '
           'edge; (g) the close callback handed to _closeiter is getattr(out, "close") of the iterable consumed, '
           '_closeiter.close calls the callbacks and _closeiter.__iter__ only iterates (does not close).')
DECIDED_MORE = ('Also: every iter()/next() of the handler iterable in _cast is inside the converting try; a textual status becomes the status line only through the separator test; the slice iterator of static_file delivers what its Content-Length announces.')
DECIDED = DECIDED + ' ' + DECIDED_MORE
DECIDED_R6 = ('Round 6: exactly 1xx/204/304 lose their body by status; emit iterates a snapshot; pair-level transcoding of every emitted header value; range-parser clauses of C17 under e; type-aware flow of the peeked item in _cast.')
DECIDED = DECIDED + ' ' + DECIDED_R6
DECIDED_R7 = ('Round 7: _cast announces no length but len() of the bytes it returns; a status line is not compared with numbers; hooks remembered by emit are dropped by every method that edits the hook lists.')
DECIDED = DECIDED + ' ' + DECIDED_R7
DECIDED_R8 = ("Round 8: hooks are registered through add_hook only; the except-Exception handler of _cast's iterator peek never re-raises.")
DECIDED = DECIDED + ' ' + DECIDED_R8
DECIDED_R9 = ('Round 9: `emit` exhausts the snapshot whatever the hooks return (b); premises C14.b / C14.c for "no stored header value contains a line break" (a).')
DECIDED = DECIDED + ' ' + DECIDED_R9
NOT_DECIDED = ('header-list well-formedness beyond C14; close-exactly-once at run time for arbitrary servers; custom error '
               'handlers; behaviour after the first body chunk; the open set of handler programs.')
ASSUMPTIONS = ['the server calls close() on the returned iterable once (PEP 3333)', 'start_response itself may raise: then the handler\'s call carries exc_info']

OM = 'ombott.ombott'


def check(P, R):
    R.rule('C03.a', 'start_response exactly once per normal exit', floor=4)
    R.rule('C03.b', 'hook lifecycle', floor=6)
    R.rule('C03.c', 'failures become responses', floor=5)
    R.rule('C03.d', '_cast returns bytes iterables only', floor=5)
    R.rule('C03.e', 'framework Content-Length equals the bytes returned', floor=2)
    R.rule('C03.f', 'body suppression for HEAD / 1xx / 204 / 304', floor=4)
    R.rule('C03.g', 'close propagation', floor=4)
    check_wsgi(P, R)
    check_handle(P, R)
    check_cast(P, R)
    check_closeiter(P, R)
    check_status_setter(P, R)
    # static_file announces the slice length as Content-Length: the slice iterator must deliver exactly that many bytes (premise shared with C17)
    from . import c17
    c17.check_stream(P, Sub(R, default='C03.e', why='a Content-Length set by the framework equals the number of bytes returned (static_file, 206)'))
    c17.check_parser(P, Sub(R, default='C03.e', why='a Content-Length set by the framework equals the number of bytes returned: the slice announced for a 206 lies inside the file'))
    # the header list handed to start_response is well-formed: every value a Latin-1 native string (premise shared with C14.d)
    from . import c14
    c14.check_emission(P, Sub(R, default='C03.a', why='start_response is called with a well-formed header list'))
    # ... and no stored value carries CR / LF / NUL: the setter and guard clauses of C14 are premises of "well-formed"
    from ..report import run_premise
    run_premise(R, c14, P, {'C14.b', 'C14.c'}, 'C03.a', 'start_response is called with a well-formed header list: no value contains a line break')
    # the Content-Length that _cast adds is written into the live response's own header dictionary: applying a returned / raised response
    # must copy its headers, not hand its dictionary over (a shared error object would keep the length of an earlier page)
    from . import c09

    class _Sub:
        def __init__(self, R_):
            self._R = R_

        def ob(self, rule, *a, **kw):
            kw['why'] = 'Content-Length equals the bytes returned, also when the same response object answers two requests'
            return self._R.ob('C03.e' if rule == 'C09.c' else rule, *a, **kw)

        def __getattr__(self, k):
            return getattr(self._R, k)
    c09.check_apply(P, _Sub(R))


def check_wsgi(P, R):
    f = P.func(f'{OM}:Ombott.wsgi')
    g, rd = f.cfg, f.rd
    sr = f.params[2]
    calls = [c for c in walk_shallow(f.node) if isinstance(c, ast.Call) and isinstance(c.func, ast.Name) and c.func.id == sr]
    R.require(len(calls) >= 2, 'wsgi: start_response call sites not found')
    nodes = {id(c): g.node_of_stmt(c)[0] for c in calls}
    cn = list(nodes.values())
    # at least one on every path to a return
    ok = g.must_pass(g.entry, g.exit, cn)
    R.ob('C03.a', f, f.node, ok, text='every return of wsgi is preceded by a start_response call', detail='' if ok else
         'a path returns a body without having called start_response')
    # at most one completed call: from the normal continuation of a call no other call (or the same) is reachable
    for c in calls:
        n = nodes[id(c)]
        nxt = [m for (m, lab) in n.succ if lab != 'exc']
        reach = g.reachable_from(nxt) if nxt else set()
        again = [m for m in cn if m in reach]
        ok = not again
        R.ob('C03.a', f, c, ok, detail='' if ok else
             f'after this call completed, start_response can be called again (line {again[0].line}) on the same request',
             why='PEP 3333: start_response is called once (again only with exc_info after a failure)')
        # in the try body: nothing that can raise between the call and the return
        tr = enclosing(c, ast.Try)
        in_handler = enclosing(c, ast.ExceptHandler) is not None
        if not in_handler:
            from ..cfg import expr_may_raise
            risky = [m for m in reach if m.kind in ('stmt', 'test', 'for', 'with') and m.ast is not None and
                     not (isinstance(m.ast, ast.Return) and isinstance(m.ast.value, (ast.Name, ast.Constant))) and expr_may_raise(
                         m.ast if m.kind != 'for' else m.ast.iter) and T._inside(m.ast, tr.body if tr else [])]
            R.ob('C03.a', f, c, not risky, text=f'{short(c)}: nothing raises between it and the return', detail='' if not risky else
                 f'`{short(risky[0].ast)}` after the call can raise into the catch-all, which calls start_response a second time',
                 key_extra='tail')
        else:
            okx = len(c.args) >= 3 and 'exc_info' in src(c.args[2])
            R.ob('C03.a', f, c, okx, text='handler call passes sys.exc_info()', detail='' if okx else
                 'the catch-all calls start_response without exc_info although headers may have been sent', key_extra='excinfo')
            ok500 = c.args and isinstance(c.args[0], ast.Constant) and str(c.args[0].value).startswith('500')
            R.ob('C03.c', f, c, ok500, text='catch-all answers 500', detail='' if ok500 else 'catch-all status is not 500')
    # catch-all returns [bytes]
    handlers = [h for h in ast.walk(f.node) if isinstance(h, ast.ExceptHandler) and dotted(h.type) == 'Exception']
    R.require(handlers, 'wsgi: no `except Exception` handler')
    for h in handlers:
        rets = [n for st in h.body for n in walk_shallow(st) if isinstance(n, ast.Return)]
        ok = bool(rets) and all(isinstance(r.value, ast.List) and len(r.value.elts) == 1 and isinstance(r.value.elts[0], ast.Call)
                                and dotted(r.value.elts[0].func) in ('tob', 'bytes') or
                                (isinstance(r.value, ast.List) and len(r.value.elts) == 1 and isinstance(r.value.elts[0], ast.Call)
                                 and call_attr(r.value.elts[0]) == 'encode') for r in rets)
        R.ob('C03.c', f, rets[0] if rets else h, ok, text='catch-all returns [bytes]', detail='' if ok else 'catch-all does not return a one-element bytes list')
        rer = [n for st in h.body for n in walk_shallow(st) if isinstance(n, ast.Raise)]
        okr = all(enclosing(r, ast.If) is not None and 'catchall' in src(enclosing(r, ast.If).test) for r in rer)
        R.ob('C03.c', f, h, okr, text='catch-all re-raises only when catchall is off', detail='' if okr else 'catch-all re-raises unconditionally', nontrivial=False)
    # ---- f: suppression
    # which attributes of the response read the numeric status code, which the status line (text): the slots themselves and the plain properties over them
    kinds = {'_status_code': 'code', '_status_line': 'line'}
    rcls_ = P.cls('ombott.response:BaseResponse')
    for pn_, pm_ in rcls_.methods.items():
        if any(dotted(d_) == 'property' for d_ in pm_.node.decorator_list):
            vals_ = {dotted(T.expand(pm_, v_, at_)) for (v_, at_, _r) in T.result_values(pm_) if v_ is not None}
            if vals_ == {'self._status_code'}:
                kinds[pn_] = 'code'
            elif vals_ == {'self._status_line'}:
                kinds[pn_] = 'line'

    def status_reads(e, kind):
        return [x for x in ast.walk(e) if isinstance(x, ast.Attribute) and kinds.get(x.attr) == kind]
    # a status *line* looked up in a set of numbers is never found
    for n in g.nodes:
        if n.ast is None or n.kind not in ('test', 'stmt'):
            continue
        for x in ast.walk(n.ast):
            cp_ = compare_parts(x) if isinstance(x, ast.Compare) else None
            if cp_ and cp_[1] in (ast.In, ast.NotIn, ast.Eq, ast.NotEq) and isinstance(cp_[0], ast.Attribute) and kinds.get(cp_[0].attr) == 'line':
                try:
                    cv_ = T.ceval(f, cp_[2])
                except T.CannotEval:
                    continue
                nums = [v for v in (cv_ if isinstance(cv_, (set, frozenset, tuple, list)) else [cv_]) if isinstance(v, int)]
                if nums:
                    R.ob('C03.f', f, x, False, text=f'`{short(x)}` compares the numeric status', detail=
                         f'`{short(cp_[0])}` is the status line (text such as "204 No Content"), compared here with the numbers {sorted(nums)[:4]}: the comparison is never true, so '
                         f'1xx / 204 / 304 responses keep the body the handler returned (and the iterable is not closed on that branch)',
                         why='1xx, 204 and 304 responses carry no body', key_extra='status-type')
    sup_any = [n for n in g.nodes if n.ast is not None and n.kind in ('test', 'stmt') and status_reads(n.ast, 'code') and ' in ' in src(n.ast)]
    R.require(sup_any, 'wsgi: no body-suppression decision')
    casts = [g.node_of_stmt(c)[0] for c in walk_shallow(f.node) if isinstance(c, ast.Call) and dotted(c.func) == 'self._cast']
    R.require(casts, 'wsgi: _cast call not found')
    for n in sup_any:
        ok = g.must_pass(g.entry, n, casts)
        R.ob('C03.f', f, n.ast, ok, text='the no-body decision reads the status after _cast() applied the final response', detail='' if ok else
             'the status is inspected before _cast(): a returned / raised HTTPResponse or HTTPError sets the final status inside _cast, so a 204 / 304 '
             'response keeps its body (and an error replacing a 204 loses its body while keeping its Content-Length)',
             why='1xx, 204 and 304 responses carry no body; Content-Length equals the bytes returned', key_extra='after-cast')
    sup = []
    for n in g.nodes:
        if n.kind != 'test':
            continue
        te = T.expand(f, n.ast, n)
        alts = bool_operands(te, ast.Or)
        if isinstance(te, ast.Name) and rd.is_local(te.id):
            # a flag raised in steps (`no_body = <status test>; if not no_body: no_body = <method test>`): true when any of its definitions is
            ds_ = rd.at(n, te.id)
            if ds_ and all(d_.kind == 'assign' and d_.value is not None for d_ in ds_):
                alts = [x_ for d_ in ds_ for x_ in bool_operands(T.expand(f, d_.value, d_.node), ast.Or)]
        txt = ' '.join(src(a_) for a_ in alts)
        if 'HEAD' in txt and any(status_reads(a_, 'code') for a_ in alts):
            sup.append((n, alts))
    R.require(sup, 'wsgi: no body-suppression test')
    sn, parts = sup[0]
    codes = None
    for p in parts:
        cp = compare_parts(p)
        if cp and cp[1] is ast.In and status_reads(cp[0], 'code'):
            try:
                codes = set(T.ceval(f, cp[2]))
            except T.CannotEval:
                codes = None
    okc = codes is not None and {100, 101, 204, 304} <= codes
    R.ob('C03.f', f, sn.ast, okc, text=f'no-body statuses = {sorted(codes) if codes else "?"}', detail='' if okc else
         'the set of statuses without a body does not contain 100, 101, 204 and 304')
    # ... and nothing else: any other status may carry a body, and _cast has already announced that body's length
    extra_codes = sorted(c_ for c_ in (codes or ()) if isinstance(c_, int) and not (100 <= c_ < 200) and c_ not in (204, 304))
    R.ob('C03.f', f, sn.ast, not extra_codes, text='only 1xx, 204 and 304 lose their body by status', detail='' if not extra_codes else
         f'status {extra_codes} is treated as body-less: such a response may carry a body, _cast has set Content-Length from it, and dropping the body here sends '
         f'Content-Length: n with zero bytes', why='a Content-Length set by the framework on a response that may carry a body equals the number of bytes returned',
         key_extra='no-body-exact')
    okh = any(compare_parts(p) and compare_parts(p)[1] is ast.Eq and is_const(compare_parts(p)[2], 'HEAD')
              and 'REQUEST_METHOD' in src(compare_parts(p)[0]) for p in parts)
    R.ob('C03.f', f, sn.ast, okh, text='HEAD suppresses the body', detail='' if okh else 'HEAD requests keep their body')
    # on the true edge: out rebound to [] before start_response, close called once
    first_call = [nodes[id(c)] for c in calls if enclosing(c, ast.ExceptHandler) is None]
    outname = None
    for c in calls:
        if enclosing(c, ast.ExceptHandler) is None:
            pass
    rets = [n for n in walk_shallow(f.node) if isinstance(n, ast.Return) and isinstance(n.value, ast.Name) and enclosing(n, ast.ExceptHandler) is None]
    R.require(rets, 'wsgi: try body does not return a name')
    outname = rets[0].value.id
    empties = [d.node for n in g.nodes for d in rd.gen.get(n, []) if d.name == outname and isinstance(d.value, ast.List) and not d.value.elts
               and g.edge_dominates(sn, 'true', n)]
    succ = T.succ_by_label(sn, 'true')
    ok = bool(empties) and all(all(s in empties or g.must_pass(s, fc, empties) for s in succ) for fc in first_call)
    R.ob('C03.f', f, sn.ast, ok, text=f'{outname} = [] before start_response on the no-body edge', detail='' if ok else
         'on the no-body edge the body is not replaced by an empty list before the response is started')
    closes = [c for c in walk_shallow(f.node) if isinstance(c, ast.Call) and isinstance(c.func, ast.Name)
              and any(isinstance(d.value, ast.Call) and dotted(d.value.func) == 'getattr' and len(d.value.args) >= 2 and is_const(d.value.args[1], 'close')
                      for d in rd.at(g.node_of_stmt(c)[0], c.func.id))]
    okcl = len(closes) == 1 and g.edge_dominates(sn, 'true', g.node_of_stmt(closes[0])[0])
    if okcl:
        cnode = g.node_of_stmt(closes[0])[0]
        # close is taken from the old body (before it is emptied)
        d = rd.at(cnode, closes[0].func.id)[0]
        okcl = src(d.value.args[0]) == outname and not any(e is d.node or g.can_reach(e, d.node) for e in empties)
    R.ob('C03.f', f, closes[0] if closes else sn.ast, okcl, text='close() of the dropped body called once on that edge', detail='' if okcl else
         'the dropped body is not closed exactly once (missing, repeated, or taken after the body was replaced)',
         why='a handler iterable that produced output is closed exactly once')


def check_handle(P, R):
    f = P.func(f'{OM}:Ombott._handle')
    g, rd = f.cfg, f.rd
    emits = [c for c in T.calls_to(f, 'self.emit') if c.args and isinstance(c.args[0], ast.Constant)]
    before = [c for c in emits if c.args[0].value == 'before_request']
    after = [c for c in emits if c.args[0].value == 'after_request']
    R.require(before and after, '_handle: hook emissions not found')
    tries = [t for t in ast.walk(f.node) if isinstance(t, ast.Try) and t.finalbody and any(a is x for a in after for st in t.finalbody for x in ast.walk(st))]
    R.ob('C03.b', f, after[0], bool(tries), text='after_request emitted in a finally', detail='' if tries else
         'after_request is not emitted from a finally block: an exception in routing or the handler skips it')
    route_calls = T.calls_to(f, 'self.to_route', 'self.handler')
    if tries:
        t = tries[0]
        for c in before + route_calls:
            ok = any(c is x for st in t.body for x in ast.walk(st))
            R.ob('C03.b', f, c, ok, text=f'{short(c, 50)} inside the try of that finally', detail='' if ok else
                 'this step runs outside the try/finally that emits after_request: if it raises (e.g. a failing before_request hook), '
                 'the after_request hooks are skipped',
                 why='after-request hooks run once each whatever the outcome, including a failing before-request hook')
    # order: before_request precedes routing
    bn = [g.node_of_stmt(c)[0] for c in before]
    for c in route_calls:
        cnodes = g.node_of_stmt(c)
        ok = all(g.must_pass(g.entry, n, bn) for n in cnodes)
        R.ob('C03.b', f, c, ok, text=f'before_request precedes {short(c, 40)}', detail='' if ok else 'routing / handler can run before the before_request hooks',
             key_extra='order')
    # every hook is registered through add_hook (which knows which hooks run in reverse order): nothing else adds to the hook lists
    cls_ = P.cls(f'{OM}:Ombott')
    for mname_, m_ in cls_.methods.items():
        if mname_ in ('add_hook', 'remove_hook', '_hooks') or isinstance(m_.node, ast.Lambda):
            continue
        aliases = {t.id for st_ in ast.walk(m_.node) if isinstance(st_, ast.Assign) and '_hooks' in src(st_.value) and 'self' in src(st_.value)
                   and not any(isinstance(x_, ast.Call) for x_ in ast.walk(st_.value)) for t in st_.targets if isinstance(t, ast.Name)}
        for c_ in ast.walk(m_.node):
            if isinstance(c_, ast.Call) and call_attr(c_) in ('append', 'insert', 'extend') and (
                    ('_hooks' in src(c_.func.value) and 'self' in src(c_.func.value)) or (isinstance(c_.func.value, ast.Name) and c_.func.value.id in aliases)):
                R.ob('C03.b', m_, c_, False, text=f'`{short(c_)}` in {mname_}(): hooks are registered through add_hook only', detail=
                     f'`{short(c_)}` puts a hook into the list directly: add_hook() inserts the hooks of the reversed set (after_request) at the front, this path appends them - '
                     f'after-request hooks registered through {mname_}() run in registration order instead of the reverse',
                     why='after-request hooks run once each in reverse order', key_extra='direct-hook-store')
    # add_hook / emit
    ah = P.func(f'{OM}:Ombott.add_hook')
    cls_ = P.cls(f'{OM}:Ombott')
    rev = None
    for k, v in cls_.attrs.items():
        if 'hook_reversed' in k:
            try:
                rev = set(T.ceval(cls_, v))
            except T.CannotEval:
                rev = None
    R.ob('C03.b', cls_.fq, None, rev == {'after_request'}, text=f'reversed hook set = {rev}', detail='' if rev == {'after_request'} else
         'the set of hooks run in reverse registration order is not {after_request}')
    tests = [n for n in ah.cfg.nodes if n.kind == 'test' and 'hook_reversed' in src(n.ast)]
    ok = False
    if tests:
        tn = tests[0]
        ins = [c for c in walk_shallow(ah.node) if isinstance(c, ast.Call) and call_attr(c) == 'insert' and c.args and is_const(c.args[0], 0)]
        app = [c for c in walk_shallow(ah.node) if isinstance(c, ast.Call) and call_attr(c) == 'append']
        ok = bool(ins) and bool(app) and ah.cfg.edge_dominates(tn, 'true', ah.cfg.node_of_stmt(ins[0])[0]) and \
            ah.cfg.edge_dominates(tn, 'false', ah.cfg.node_of_stmt(app[0])[0])
    if not ok:
        # one insert at a computed position: `insert(0 if name in reversed else len(hooks), func)`
        for c in [c for c in walk_shallow(ah.node) if isinstance(c, ast.Call) and call_attr(c) == 'insert' and len(c.args) == 2]:
            cn_ = ah.cfg.node_of_stmt(c)[0]
            pos = T.expand(ah, c.args[0], cn_)
            recv = T.xsrc(ah, c.func.value, cn_)
            if isinstance(pos, ast.IfExp) and 'hook_reversed' in src(pos.test):
                neg_ = isinstance(pos.test, ast.UnaryOp) or (isinstance(pos.test, ast.Compare) and isinstance(pos.test.ops[0], ast.NotIn))
                first_, last_ = (pos.orelse, pos.body) if neg_ else (pos.body, pos.orelse)
                ok = is_const(first_, 0) and isinstance(last_, ast.Call) and dotted(last_.func) == 'len' and \
                    T.xsrc(ah, last_.args[0], cn_) == recv
                tests = tests or [cn_]
    R.ob('C03.b', ah, (tests[0].ast if tests and tests[0].ast is not None else ah.node) if tests else ah.node, ok, text='reversed hooks inserted at 0, others appended', detail='' if ok else
         'add_hook does not prepend reversed hooks / append the others')
    check_emit_snapshot(P, R, 'C03.b', 'every hook runs once, in order, whatever the hooks themselves (or other requests) do to the hook list')

    # ---- c: exception discipline of _handle
    outer = [t for t in ast.walk(f.node) if isinstance(t, ast.Try) and t.handlers and any('HTTPResponse' in src(h.type) for h in t.handlers if h.type)]
    R.require(outer, '_handle: no handler for HTTPResponse')
    t = outer[0]
    for c in before + route_calls:
        ok = any(c is x for st in t.body for x in ast.walk(st))
        R.ob('C03.c', f, c, ok, text=f'{short(c, 40)} inside the capturing try', detail='' if ok else 'exceptions of this step escape _handle',
             key_extra='captured')
    hmap = {}
    for h in t.handlers:
        names = [dotted(e) for e in (h.type.elts if isinstance(h.type, ast.Tuple) else [h.type])] if h.type else ['*']
        for nm in names:
            hmap[nm] = h
    h = hmap.get('HTTPResponse')
    results = T.result_values(f)        # (value, node, return stmt): also the `result = ...; return result` single-exit style

    def handed_back_in(hh):
        return [v for (v, n_, r_) in results if n_.ast is not None and T._inside(n_.ast, hh.body)]
    ok = h is not None and h.name and any(isinstance(v, ast.Name) and v.id == h.name for v in handed_back_in(h))
    R.ob('C03.c', f, h or t, ok, text='except HTTPResponse as r: return r', detail='' if ok else 'a raised HTTP response is not returned as the response')
    h = hmap.get('Exception')
    ok = False
    if h is not None:
        rets = handed_back_in(h)
        ok = bool(rets) and all(isinstance(v, ast.Call) and dotted(v.func) == 'HTTPError' and v.args and is_const(v.args[0], 500) for v in rets)
        # the handler must not complete without handing a response back
        hn_ = f.cfg.nodes_for(h)
        ok = ok and bool(hn_) and not f.cfg.can_reach(hn_[0], f.cfg.exit, avoid_nodes=[n_ for (v, n_, r_) in results if n_.ast is not None and T._inside(n_.ast, h.body)])
        # order: HTTPResponse handler before Exception handler
        ok = ok and t.handlers.index(hmap['HTTPResponse']) < t.handlers.index(h)
    R.ob('C03.c', f, h or t, ok, text='except Exception: return HTTPError(500, ...)', detail='' if ok else
         'an arbitrary handler exception does not become a 500 response (handler missing, narrowed or shadowing HTTPResponse)')
    rer = [hh for hh in t.handlers if any(isinstance(n, ast.Raise) and n.exc is None for st in hh.body for n in walk_shallow(st))]
    okr = all(set(dotted(e) for e in (hh.type.elts if isinstance(hh.type, ast.Tuple) else [hh.type])) <= {'KeyboardInterrupt', 'SystemExit', 'MemoryError'} for hh in rer)
    R.ob('C03.c', f, rer[0] if rer else t, okr, text='only KeyboardInterrupt/SystemExit/MemoryError are re-raised', detail='' if okr else
         'other exception classes are re-raised to the server')


def _guarded_by_isinstance(g, node, name, typ, rd):
    for n in g.nodes:
        if n.kind != 'test':
            continue
        t, neg = strip_not(n.ast)
        if isinstance(t, ast.Call) and dotted(t.func) == 'isinstance' and len(t.args) == 2 and src(t.args[0]) == name and src(t.args[1]) == typ:
            if g.edge_dominates(n, 'false' if neg else 'true', node) and rd.same_defs(n, node, name):
                return True
    return False


def check_cast(P, R):
    f = P.func(f'{OM}:Ombott._cast')
    g, rd = f.cfg, f.rd
    rets = [n for n in walk_shallow(f.node) if isinstance(n, ast.Return)]
    R.require(len(rets) >= 4, '_cast: returns not found')
    for r in rets:
        rn = g.node_of_stmt(r)[0]
        v = r.value
        ok, det = False, f'`{short(v)}` is not known to be an iterable of bytes on this path'
        if isinstance(v, ast.List) and not v.elts:
            ok, det = True, ''
        elif isinstance(v, ast.List) and len(v.elts) == 1:
            e = v.elts[0]
            if isinstance(e, ast.Name):
                ok = _guarded_by_isinstance(g, rn, e.id, 'bytes', rd)
                det = '' if ok else f'[{e.id}] is returned without {e.id} being known to be bytes here'
            elif isinstance(e, ast.Call) and (call_attr(e) == 'encode' or dotted(e.func) in ('tob', 'bytes')):
                ok, det = True, ''
        elif isinstance(v, ast.Call):
            d = dotted(v.func) or ''
            if d == 'WSGIFileWrapper' or 'wsgi.file_wrapper' in src(v.func):
                ok, det = True, ''
        elif isinstance(v, ast.Name):
            defs = rd.at(rn, v.id)
            ok = bool(defs)
            for d in defs:
                ok = ok and iter_value_ok(f, d, rn)
            det = '' if ok else f'`{v.id}` may be bound to something that does not yield bytes: {[short(d.value) for d in defs]}'
        R.ob('C03.d', f, r, ok, detail=det, why='the application returns an iterable of byte strings')
        # ---- e: Content-Length pairing
    sds = [c for c in walk_shallow(f.node) if isinstance(c, ast.Call) and call_attr(c) == 'setdefault' and c.args and is_const(c.args[0], 'Content-Length')]
    R.require(sds, '_cast: no Content-Length setdefault')
    for c in sds:
        cn = g.node_of_stmt(c)[0]
        val = c.args[1] if len(c.args) > 1 else None
        nxt = [m for (m, lab) in cn.succ if lab == 'next']
        ret = nxt[0] if len(nxt) == 1 and nxt[0].kind == 'stmt' and isinstance(nxt[0].ast, ast.Return) else None
        ok, det = False, 'Content-Length is set but the very next step is not the matching return'
        if ret is not None:
            rv = ret.ast.value
            if is_const(val, 0):
                ok = isinstance(rv, ast.List) and not rv.elts
                det = '' if ok else 'Content-Length 0 is not paired with `return []`'
            elif isinstance(val, ast.Call) and dotted(val.func) == 'len' and val.args and isinstance(val.args[0], ast.Name):
                x = val.args[0].id
                ok = isinstance(rv, ast.List) and len(rv.elts) == 1 and isinstance(rv.elts[0], ast.Name) and rv.elts[0].id == x \
                    and rd.same_defs(cn, ret, x) and _guarded_by_isinstance(g, cn, x, 'bytes', rd)
                det = '' if ok else (f'Content-Length is len({x}) but what is returned is `{short(rv)}`: if {x} is text, its length in '
                                     f'characters differs from the number of bytes sent (non-ASCII bodies)')
        R.ob('C03.e', f, c, ok, detail=det, why='a Content-Length set by the framework equals the number of bytes returned')
    # ... and nothing else in _cast announces a length: a number that is not the length of the very bytes returned (the size of a file the handler may have
    # read from already, a pipe's 0, a character count) disagrees with what is sent
    for st_ in walk_shallow(f.node):
        tg_ = [t for t in (st_.targets if isinstance(st_, ast.Assign) else []) if isinstance(t, ast.Subscript) and is_const(t.slice, 'Content-Length')]
        tg_ += [t for t in (st_.targets if isinstance(st_, ast.Assign) else []) if isinstance(t, ast.Attribute) and t.attr == 'content_length']
        if tg_:
            R.ob('C03.e', f, st_, False, text=f'`{short(st_)}`: a length announced by _cast that is not len() of the bytes it returns', detail=
                 f'`{short(st_)}` sets Content-Length from `{short(st_.value)}`, not from the bytes handed to the server: for a file-like result the size of the file ignores '
                 f'the position the handler left it at (100 bytes sent, 104 announced), a pipe or socket reports 0',
                 why='a Content-Length set by the framework equals the number of bytes returned', key_extra='other-length')
    # ... and the handler of that try converts, whatever the configuration: a handler failure at the first next() of a generator is a 500 like one in a plain
    # handler (which _handle converts without asking `catchall`)
    for h_ in [h_ for h_ in ast.walk(f.node) if isinstance(h_, ast.ExceptHandler) and dotted(h_.type) == 'Exception']:
        rs_ = [x_ for st_ in h_.body for x_ in ast.walk(st_) if isinstance(x_, ast.Raise)]
        R.ob('C03.c', f, rs_[0] if rs_ else h_, not rs_, text='_cast: `except Exception` around the first chunk converts to a 500, it never re-raises', detail='' if not rs_ else
             f'`{short(rs_[0])}` in the handler that turns a failure at the first next() into a 500: with that configuration (catchall off) a generator handler that fails before its '
             f'first chunk escapes to the server without start_response having been called, while the same failure in a plain handler is answered 500',
             why='handler failures become a 500 response instead of escaping to the server', key_extra='cast-handler-raises')
    # ---- c (part): every step that runs handler code while peeking (iter(out), next(iout)) sits in the try that turns failures into responses
    from .c17 import _caught
    peeks = [c for c in walk_shallow(f.node) if isinstance(c, ast.Call) and dotted(c.func) in ('iter', 'next') and c.args]
    R.require(peeks, '_cast: iter()/next() of the handler iterable not found')
    for c in peeks:
        ok = _caught(c, {'Exception', 'BaseException'}) and _caught(c, {'HTTPResponse', 'Exception', 'BaseException'})
        R.ob('C03.c', f, c, ok, text=f'{short(c)} inside the try that converts failures', detail='' if ok else
             f'`{short(c)}` runs handler code outside the try/except of _cast: an exception (or a raised HTTP response) of a generator that first yielded '
             f'empty chunks escapes _cast instead of becoming the 500 / the raised response',
             why='handler failures before the first body chunk become a 500 response instead of escaping', key_extra='peek-captured')
    # ---- g (part): close callback = getattr(out, 'close') of the consumed iterable
    ci = [c for c in walk_shallow(f.node) if isinstance(c, ast.Call) and dotted(c.func) == '_closeiter']
    R.require(ci, '_cast: _closeiter not used')
    for c in ci:
        cn = g.node_of_stmt(c)[0]
        a1 = c.args[1] if len(c.args) > 1 else None
        ok = False
        if isinstance(a1, ast.Name):
            defs = rd.at(cn, a1.id)
            its = [x for x in walk_shallow(f.node) if isinstance(x, ast.Call) and dotted(x.func) == 'iter']
            outn = its[0].args[0].id if its and isinstance(its[0].args[0], ast.Name) else None
            ok = bool(defs) and all(isinstance(d.value, ast.Call) and dotted(d.value.func) == 'getattr' and src(d.value.args[0]) == outn
                                    and is_const(d.value.args[1], 'close') for d in defs)
            if ok:
                itn = g.node_of_stmt(its[0])[0]
                ok = all(rd.same_defs(itn, d.node, outn) for d in defs)
        R.ob('C03.g', f, c, ok, text=f'_closeiter(<iter>, getattr(out, "close"))', detail='' if ok else
             'the close callback is not the close of the iterable that was consumed (or is dropped)',
             why='a handler iterable that produced output must be closed')
    # the wrap happens whenever a close exists
    ifs = [n for n in g.nodes if n.kind == 'test' and isinstance(n.ast, ast.Name) and any(
        isinstance(d.value, ast.Call) and dotted(d.value.func) == 'getattr' and is_const(d.value.args[1], 'close') for d in rd.at(n, n.ast.id))]
    ok = bool(ifs) and all(g.edge_dominates(ifs[0], 'true', g.node_of_stmt(c)[0]) for c in ci)
    R.ob('C03.g', f, ifs[0].ast if ifs else f.node, ok, text='iterator wrapped whenever the iterable has close()', detail='' if ok else
         'an iterable with close() is returned without the closing wrapper')
    # loop bound
    lc = [n for n in g.nodes if n.kind == 'test' and compare_parts(n.ast) and compare_parts(n.ast)[1] in (ast.Gt, ast.GtE)
          and isinstance(T.module_value(f, compare_parts(n.ast)[2]), ast.Constant)]
    R.ob('C03.d', f, lc[0].ast if lc else f.node, bool(lc), text='casting loop is bounded', detail='' if lc else 'the casting loop has no iteration bound', nontrivial=False)


def _item_types(f, defnode, use, item, var):
    """The types ('bytes', 'str', 'other') the peeked item `item` may have on a path that executes `defnode` and then reaches
    `use` with `var` still bound by `defnode`.  A type is excluded only when every such path takes an edge of an
    `isinstance(item, ...)` test (on the same binding of the item) that the type contradicts."""
    g, rd = f.cfg, f.rd
    item_defs = {d.node for d in rd.at(defnode, item) if d.node is not None}
    all_item_defs = {n for n, ds in rd.gen.items() for d in ds if d.name == item}
    killers = {n for n, ds in rd.gen.items() for d in ds if d.name == var and n is not defnode}
    tests = []
    for n in g.nodes:
        if n.kind != 'test':
            continue
        t, neg = strip_not(n.ast)
        if isinstance(t, ast.Call) and dotted(t.func) == 'isinstance' and len(t.args) == 2 and src(t.args[0]) == item:
            a1 = t.args[1]
            names = [src(e) for e in a1.elts] if isinstance(a1, ast.Tuple) else [src(a1)]
            tests.append((n, neg, set(names)))
    out = set()
    for typ in ('bytes', 'str', 'other'):
        avoid = set()
        for (n, neg, names) in tests:
            if typ in names:
                holds = True
            elif typ == 'other' and not names <= {'bytes', 'str'}:
                continue                                    # may or may not hold
            else:
                holds = False
            taken = ('true' if holds else 'false') if not neg else ('false' if holds else 'true')
            avoid.add((n, 'false' if taken == 'true' else 'true'))
        # item bound -> defnode, with the tests of this binding constraining the way
        starts = item_defs or {g.entry}
        before = g.reachable_from(starts, avoid_nodes=all_item_defs - {defnode}, avoid_edges=avoid)
        if defnode not in before and defnode not in starts:
            continue
        if use is defnode:
            out.add(typ)
            continue
        after = g.reachable_from(defnode, avoid_nodes=killers, avoid_edges=avoid)
        if use in after:
            out.add(typ)
            continue
        # a rebinding of the item frees the later tests
        for n2 in after & all_item_defs:
            if n2 is not defnode and g.can_reach(n2, use, avoid_nodes=killers):
                out.add(typ)
                break
    return out


def _chain_item(v):
    if isinstance(v, ast.Call) and dotted(v.func) in ('itertools.chain', 'chain'):
        a0 = v.args[0] if v.args else None
        if isinstance(a0, ast.List) and len(a0.elts) == 1 and isinstance(a0.elts[0], ast.Name):
            return a0.elts[0].id
    return None


def iter_value_ok(f, d, use):
    """the value bound by `d` yields bytes on every path on which it reaches `use`"""
    g, rd = f.cfg, f.rd
    v = d.value
    if v is None or d.node is None:
        return False
    if isinstance(v, ast.Call) and dotted(v.func) == '_closeiter' and v.args and isinstance(v.args[0], ast.Name):
        inner = rd.at(d.node, v.args[0].id)
        return bool(inner) and all(iter_value_ok(f, x, d.node) for x in inner if x is not d)
    item = _chain_item(v)
    if item:
        # chain([first], iout) only for a bytes item
        return _item_types(f, d.node, use, item, d.name) <= {'bytes'}
    if isinstance(v, ast.Call) and dotted(v.func) in ('itertools.chain', 'chain'):
        return False
    if isinstance(v, ast.GeneratorExp):
        e = v.elt
        if not (isinstance(e, ast.Call) and call_attr(e) == 'encode' and len(v.generators) == 1 and not v.generators[0].ifs):
            return False
        it = v.generators[0].iter
        if isinstance(it, ast.Name) and not _chain_item(it):
            inner = rd.at(d.node, it.id)
            if not inner:
                return False
            for x in inner:
                item = _chain_item(x.value) if x.value is not None and x.node is not None else None
                if not item:
                    return False
                # ... the text chain is encoded: both the chain and the encoding must be on a str-only flow
                if not _item_types(f, x.node, d.node, item, x.name) <= {'str'}:
                    return False
                if not _item_types(f, d.node, use, item, d.name) <= {'str'}:
                    return False
            return True
        item = _chain_item(it)
        if item:
            return _item_types(f, d.node, use, item, d.name) <= {'str'}
        return False
    return False


def check_closeiter(P, R):
    c = P.cls(f'{OM}:_closeiter')
    it = c.methods.get('__iter__')
    cl = c.methods.get('close')
    R.require(it is not None and cl is not None, '_closeiter: __iter__/close missing')
    calls_close = [x for x in ast.walk(it.node) if isinstance(x, ast.Call) and (dotted(x.func) in ('self.close',) or 'close_callbacks' in src(x))]
    is_gen = any(isinstance(x, (ast.Yield, ast.YieldFrom)) for x in ast.walk(it.node))
    ok = not calls_close
    R.ob('C03.g', it, it.node, ok, text='_closeiter.__iter__ only iterates', detail='' if ok else
         '__iter__ also runs the close callbacks (e.g. in a finally): a compliant server then calls close() as well and the handler '
         'iterable is closed twice',
         why='a handler iterable that produced output is closed exactly once')
    rets = [n for n in walk_shallow(it.node) if isinstance(n, ast.Return)]
    ok = is_gen or (bool(rets) and all('self.iterator' in src(r.value) for r in rets))
    R.ob('C03.g', it, it.node, ok, text='__iter__ yields from the wrapped iterator', detail='' if ok else '__iter__ does not iterate the wrapped iterator', key_extra='iter')
    ok = any('close_callbacks' in src(x) for x in ast.walk(cl.node)) and any(isinstance(x, ast.Call) and isinstance(x.func, ast.Name) for x in ast.walk(cl.node))
    R.ob('C03.g', cl, cl.node, ok, text='_closeiter.close calls every callback', detail='' if ok else 'close() does not call the callbacks')


def check_status_setter(P, R):
    """well-formed status line: a status given as text is accepted only when it has a reason phrase (a separator after the code)"""
    f = P.func('ombott.response:BaseResponse.status#2')
    g, rd = f.cfg, f.rd
    st_par = f.params[1]
    stores = [st for st in walk_shallow(f.node) if isinstance(st, ast.Assign) and any(dotted(t) == f'{f.params[0]}._status_line' for t in st.targets)]
    R.require(stores, 'status setter: store of _status_line not found')
    int_tests = [n for n in g.nodes if n.kind == 'test' and any(isinstance(c, ast.Call) and dotted(c.func) == 'isinstance' and len(c.args) == 2
                 and src(c.args[0]) == st_par and 'int' in src(c.args[1]) for c in ast.walk(n.ast))]
    if not int_tests:
        R.undecided('C03.a', f, f.node, 'status setter', 'no `isinstance(status, int)` split between numeric codes and status lines')
        return

    def has_sep_test(n):
        for x in ast.walk(n.ast):
            if isinstance(x, ast.Compare) and len(x.ops) == 1 and isinstance(x.ops[0], ast.In) and is_const(x.left, ' '):
                return 'true'
            if isinstance(x, ast.Compare) and len(x.ops) == 1 and isinstance(x.ops[0], ast.NotIn) and is_const(x.left, ' '):
                return 'false'
        # truth of the separator / reason part of `<text>.partition(' ')`
        nm = n.ast.operand if isinstance(n.ast, ast.UnaryOp) and isinstance(n.ast.op, ast.Not) else n.ast
        if isinstance(nm, ast.Name):
            for d in rd.at(n, nm.id):
                v = getattr(d.stmt, 'value', None)
                tg = d.stmt.targets[0] if isinstance(d.stmt, ast.Assign) else None
                if isinstance(v, ast.Call) and call_attr(v) in ('partition', 'rpartition') and v.args and is_const(v.args[0], ' ') \
                        and isinstance(tg, ast.Tuple) and len(tg.elts) == 3 and any(isinstance(e, ast.Name) and e.id == nm.id for e in tg.elts[1:]):
                    return 'false' if nm is not n.ast else 'true'
        return None

    seps = [(n, has_sep_test(n)) for n in g.nodes if n.kind == 'test' and n.ast is not None and has_sep_test(n)]
    passed = [m for (n, lab) in seps for m in T.succ_by_label(n, lab)]
    for it in int_tests:
        neg = isinstance(it.ast, ast.UnaryOp) and isinstance(it.ast.op, ast.Not)
        text_side = T.succ_by_label(it, 'true' if neg else 'false')
        for st in stores:
            sn = g.node_of_stmt(st)[0]
            leak = any(s_ is sn or g.can_reach(s_, sn, avoid_nodes=passed) for s_ in text_side if s_ not in passed)
            other = any(isinstance(c, ast.Call) and (dotted(c.func) or '').startswith('re.') or call_attr(c) in ('match', 'fullmatch', 'search')
                        for c in walk_shallow(f.node) if isinstance(c, ast.Call))
            if leak and other:
                R.undecided('C03.a', f, st, 'status setter', 'the status text is validated by a pattern, not by the separator test')
                continue
            R.ob('C03.a', f, st, not leak, text='a textual status reaches the status line only with a reason phrase (separator present)', detail='' if not leak else
                 'a status given as text is stored as the status line without having been required to contain a separator: `response.status = "404"` '
                 'makes start_response receive the status line `404` (no reason phrase) instead of failing as a 500',
                 why='start_response is called with a well-formed status line', key_extra='status-reason')


def check_emit_snapshot(P, R, rid, why):
    """Ombott.emit runs the hooks of a snapshot of the list (a slice copy / list() / tuple() / .copy()), in list order"""
    em = P.func(f'{OM}:Ombott.emit')
    its = []
    for x in walk_shallow(em.node):
        if isinstance(x, (ast.ListComp, ast.GeneratorExp)):
            its += [(x, g_.iter) for g_ in x.generators]
        elif isinstance(x, ast.For):
            its.append((x, x.iter))
    its = [(n_, T.expand(em, it_, em.cfg.node_of_stmt(n_)[0])) for (n_, it_) in its]
    # the iterated object may be a local with several origins: a snapshot made now, or one remembered from an earlier emit
    more = []
    for (n_, it_) in list(its):
        if isinstance(it_, ast.Name) and em.rd.is_local(it_.id):
            ds_ = em.rd.at(em.cfg.node_of_stmt(n_)[0] if not isinstance(n_, ast.For) else em.cfg.nodes_for(n_)[0], it_.id)
            vals_ = [(d_, T.expand(em, d_.value, d_.node)) for d_ in ds_ if d_.value is not None]
            memo_reads = [(d_, v_) for (d_, v_) in vals_ if '_hooks' not in src(v_) and any(isinstance(x, ast.Attribute) and (dotted(x) or '').startswith('self.') for x in ast.walk(v_))]
            for (d_, v_) in memo_reads:
                attr_ = [dotted(x) for x in ast.walk(v_) if isinstance(x, ast.Attribute) and (dotted(x) or '').startswith('self.') and isinstance(x.value, ast.Name)][0]
                # every method that edits the hook lists must drop the remembered sequence
                ocls_ = em.owner_cls
                leaks = []
                for mname_, m_ in (ocls_.methods.items() if ocls_ is not None else []):
                    edits = [c for c in walk_shallow(m_.node) if isinstance(c, ast.Call) and call_attr(c) in ('append', 'insert', 'remove', 'pop', 'clear', 'extend', 'sort', 'reverse')
                             and '_hooks' in src(c.func.value) and 'self' in src(c.func.value)]
                    drops = [c for c in walk_shallow(m_.node) if (isinstance(c, ast.Call) and call_attr(c) in ('pop', 'clear') and dotted(c.func.value) == attr_)
                             or (isinstance(c, ast.Delete) and any(attr_ in src(t_) for t_ in c.targets))]
                    if edits and not drops and m_ is not em:
                        leaks.append(mname_)
                R.ob(rid, em, d_.stmt, not leaks, text=f'hooks remembered in `{attr_}` are dropped by every method that edits the hook lists', detail='' if not leaks else
                     f'emit runs the hooks it remembered in `{attr_}` at an earlier emit, and {", ".join(leaks)}() edits the hook list without dropping that memory: a hook removed '
                     f'after the first request still runs on every later one (and the hooks that run are no longer the registered ones in their order)',
                     why=why, key_extra='emit-memo')
            for (d_, v_) in vals_:
                if '_hooks' in src(v_):
                    more.append((n_, v_))
    its = [(n_, it_) for (n_, it_) in its + more if '_hooks' in src(it_)]
    R.require(its, 'Ombott.emit: iteration over the hook list not found')
    # every hook of the snapshot is called: the iteration is exhausted whatever the hooks return (a generator fed to any() / all() / next() / `in` stops early)
    for (n_, it_) in its:
        stop = None
        if isinstance(n_, ast.GeneratorExp):
            par_ = getattr(n_, '_p', None)
            if isinstance(par_, ast.Call) and (dotted(par_.func) or '') in ('any', 'all', 'next', 'min', 'max') and dotted(par_.func) in ('any', 'all', 'next'):
                stop = f'{dotted(par_.func)}() stops at the first hook whose result decides it'
            elif isinstance(par_, ast.Compare):
                stop = 'a membership test stops at the first match'
            elif not (isinstance(par_, ast.Call) and (dotted(par_.func) or '') in ('list', 'tuple', 'sum', 'len', 'set', 'sorted', 'collections.deque', 'deque')):
                stop = 'a generator expression runs only as far as its consumer pulls it'
        elif isinstance(n_, ast.For):
            leaves = [x for b_ in n_.body for x in ast.walk(b_) if isinstance(x, (ast.Break, ast.Return)) and not any(
                isinstance(l_, (ast.For, ast.While)) and l_ is not n_ and any(x is y for y in ast.walk(l_)) for b2 in n_.body for l_ in ast.walk(b2))]
            if leaves:
                stop = f'`{short(leaves[0])}` leaves the loop'
        if stop is not None or isinstance(n_, ast.GeneratorExp):
            R.ob(rid, em, n_, stop is None, text=f'emit calls every hook of the snapshot (`{short(n_, 50)}`)', detail='' if stop is None else
                 f'{stop}: the hooks behind it are not called for this request - a hook that returns something truthy (or falsy) silences the ones registered after it',
                 why=why, key_extra='emit-exhaustive')
    for (n_, it_) in its:
        snap = (isinstance(it_, ast.Subscript) and isinstance(it_.slice, ast.Slice) and it_.slice.lower is None and it_.slice.upper is None and it_.slice.step is None) or \
            (isinstance(it_, ast.Call) and (dotted(it_.func) in ('list', 'tuple') or call_attr(it_) == 'copy'))
        reordered = any(isinstance(y, ast.Call) and dotted(y.func) in ('reversed', 'sorted', 'set', 'frozenset') for y in ast.walk(it_))
        ok = bool(snap) and not reordered
        R.ob(rid, em, n_, ok, text=f'emit iterates `{short(it_)}` (a snapshot, in order)', detail='' if ok else
             (f'emit iterates the live list `{short(it_)}`: a hook removed while the hooks run (by a hook, or by another request being served at the same time) shifts the '
              f'iteration and the next hook is silently skipped for this request' if not reordered else 'emit does not run the hooks in list order'),
             why=why, key_extra='emit-snapshot')
