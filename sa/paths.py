"""Path-sensitive reachability with a small abstract state (flag / sentinel correlation).

The CFG queries of sa/cfg.py are path-insensitive: after

    if bad: refusal = HTTPError(403)        else: refusal = None
    if refusal is not None: return refusal
    open(name)

`open` is CFG-reachable from the `bad` edge, although no execution gets there.  This module walks (node, state)
pairs, where the state records for every local name assigned on the path
  - the CFG node of the assignment that produced its current value (so that `return refusal` can be resolved to
    the expression bound on *this* path), and
  - an abstract value: NONE / TRUE / FALSE / OBJ (a freshly constructed object: not None; truthy when it is an
    instance of a class of the package that defines neither __bool__ nor __len__, or a non-empty literal) / absent.
Tests whose outcome is determined by the state (`x is None`, `x is not None`, `x`, `not x`, and / or of those) prune
the contrary edge; tests of unknown outcome let both edges through and, for `is None` forms, record what the edge
taken implies.  Everything else is treated as in the plain CFG, so the result is a refinement: a node reported
unreachable here is unreachable in every execution (given that the pruned tests read only local names).
"""
import ast

from .astutil import compare_parts, is_none, dotted
from . import rules as T

NONE, TRUE, FALSE, OBJ, TOBJ = 'none', 'true', 'false', 'obj', 'tobj'    # TOBJ: non-None and known truthy


def _absval(P, f, v):
    if v is None:
        return None
    if isinstance(v, ast.Constant):
        if v.value is None:
            return NONE
        if v.value is True:
            return TRUE
        if v.value is False:
            return FALSE
        return TOBJ if v.value else OBJ
    if isinstance(v, (ast.List, ast.Tuple, ast.Dict, ast.Set)):
        n = len(v.elts) if not isinstance(v, ast.Dict) else len(v.keys)
        return TOBJ if n else OBJ
    if isinstance(v, ast.Call):
        d = dotted(v.func)
        if d and P is not None:
            r = P.resolve_name(f.module, d)
            if r and r[0] == 'class':
                c = r[1]
                falsy = any(m in k.methods for k in P.mro(c) for m in ('__bool__', '__len__'))
                return OBJ if falsy else TOBJ
    return None


class Explorer:
    def __init__(self, f, P=None):
        self.f = f
        self.P = P
        self.g = f.cfg
        self._assign_cache = {}

    def _assigns(self, n):
        """[(name, value expr or None)] bound by CFG node n"""
        if n in self._assign_cache:
            return self._assign_cache[n]
        out = []
        for d in self.f.rd.gen.get(n, []):
            if d.kind == 'param':
                continue
            out.append((d.name, d.value if d.kind == 'assign' else None))
        self._assign_cache[n] = out
        return out

    def _atom(self, state):
        def atom(e):
            if isinstance(e, ast.Name) and e.id in state:
                av = state[e.id][1]
                if av in (NONE, FALSE):
                    return False
                if av in (TRUE, TOBJ):
                    return True
                return None
            cp = compare_parts(e)
            if cp and cp[1] in (ast.Is, ast.IsNot) and isinstance(cp[0], ast.Name) and is_none(cp[2]) and cp[0].id in state:
                av = state[cp[0].id][1]
                if av is None:
                    return None
                isnone = av == NONE
                return isnone if cp[1] is ast.Is else (not isnone)
            return None
        return atom

    def _learn(self, test, lab, state):
        """facts implied by taking edge `lab` of a test of unknown outcome"""
        t = test
        neg = False
        while isinstance(t, ast.UnaryOp) and isinstance(t.op, ast.Not):
            t, neg = t.operand, not neg
        cp = compare_parts(t)
        if cp and cp[1] in (ast.Is, ast.IsNot) and isinstance(cp[0], ast.Name) and is_none(cp[2]):
            holds = (lab == 'true') != neg            # the comparison itself is true on this edge
            isnone = holds if cp[1] is ast.Is else (not holds)
            prev = state.get(cp[0].id)
            new = dict(state)
            new[cp[0].id] = (prev[0] if prev else None, NONE if isnone else (prev[1] if prev and prev[1] in (TRUE, FALSE, TOBJ, OBJ) else OBJ))
            return new
        return state

    def walk(self, starts, state=None, avoid_edges=(), avoid_nodes=(), stop=None, labels_skip=('exc',)):
        """yield (node, state) for every feasible (node, state) reachable from the start nodes.  `stop(node)` -> True ends a path
        at that node (it is still yielded)."""
        avoid_edges = set(avoid_edges)
        avoid_nodes = set(avoid_nodes)
        init = dict(state or {})
        work = [(s, init) for s in starts]
        seen = set()
        while work:
            n, st = work.pop()
            key = (n.id, tuple(sorted((k, v[0].id if v[0] is not None else -1, v[1]) for k, v in st.items())))
            if key in seen:
                continue
            seen.add(key)
            yield n, st
            if stop is not None and stop(n):
                continue
            # effect of the node
            new = st
            asg = self._assigns(n)
            if asg:
                new = dict(st)
                for (name, val) in asg:
                    new[name] = (n, _absval(self.P, self.f, val))
            tv = None
            if n.kind == 'test':
                tv = T.truth(n.ast, self._atom(new))
            for (m, lab) in n.succ:
                if lab in labels_skip or m in avoid_nodes:
                    continue
                if (n, lab) in avoid_edges or (n, m, lab) in avoid_edges:
                    continue
                if n.kind == 'test' and lab in ('true', 'false'):
                    if tv is not None and (lab == 'true') != tv:
                        continue
                    nxt = self._learn(n.ast, lab, new) if tv is None else new
                else:
                    nxt = new
                work.append((m, nxt))

    def can_reach(self, starts, target, **kw):
        for n, _ in self.walk(starts, **kw):
            if n is target:
                return True
        return False

    def edge_dominates(self, a, label, b):
        """every feasible path entry -> b uses the out-edge of `a` labelled `label`"""
        return not self.can_reach([self.g.entry], b, avoid_edges={(a, label)})

    def terminals_from_edge(self, a, label, until=()):
        """(node, state) of every Return / Raise statement (or node in `until`) at which a feasible path starting with the edge
        (a, label) ends.  The state at `a` is taken from feasible paths entry -> a."""
        until = set(until)
        out = []
        states_at_a = [st for (n, st) in self.walk([self.g.entry]) if n is a]
        succ = [m for (m, lab) in a.succ if lab == label]

        def stop(n):
            return n in until or (n.kind == 'stmt' and isinstance(n.ast, (ast.Return, ast.Raise))) or n is self.g.exit
        for st in states_at_a or [{}]:
            st2 = dict(st)
            for (name, val) in self._assigns(a):
                st2[name] = (a, _absval(self.P, self.f, val))
            st2 = self._learn(a.ast, label, st2) if a.kind == 'test' and T.truth(a.ast, self._atom(st2)) is None else st2
            for (n, s) in self.walk(succ, state=st2, stop=stop):
                if stop(n):
                    out.append((n, s))
        return out

    def value_at(self, node, state, expr):
        """the expression bound to `expr` (a Name) on this path, when the path recorded its assignment"""
        if isinstance(expr, ast.Name) and expr.id in state and state[expr.id][0] is not None:
            for d in self.f.rd.gen.get(state[expr.id][0], []):
                if d.name == expr.id and d.kind == 'assign' and d.value is not None:
                    return d.value
        return expr
