"""Statement-level control-flow graph for one function, with dominators.

Node kinds
    entry, exit (normal return / fall-through), raise (exception leaves the function),
    stmt   (a simple statement; .ast is the statement)
    test   (the condition of If / While / IfExp-free tests; .ast is the *expression*, .owner the statement)
    for    (one iteration step of a For; .ast is the For statement; edges 'iter' / 'done')
    with   (entering a With; .ast is the With statement)
    except (entry of an exception handler; .ast is the ExceptHandler)
    join   (synthetic)
Edge labels: next, true, false, iter, done, exc, break, continue, return

Exception edges are emitted only from nodes whose AST contains a may-raise operation
(explicit raise/assert, calls outside a whitelist of total builtins, subscript loads
with a non-slice index, unpacking assignments, for-iteration, with).  `finally` bodies
are duplicated per continuation kind (normal / exception / return / break / continue),
so a path through a finally block keeps its continuation.
"""
import ast
import builtins

from .astutil import walk_shallow, dotted, call_attr

TOTAL_BUILTINS = {
    'len', 'isinstance', 'issubclass', 'min', 'max', 'id', 'type', 'callable', 'repr', 'str', 'bool',
    'hasattr', 'print', 'set', 'list', 'dict', 'tuple', 'enumerate', 'zip', 'range', 'sorted', 'reversed',
    'frozenset', 'format_exc', 'object', 'super', 'locals', 'globals', 'vars', 'abs', 'any', 'all', 'sum',
}
TOTAL_METHODS = {
    'append', 'startswith', 'endswith', 'strip', 'lstrip', 'rstrip', 'lower', 'upper', 'get', 'clear', 'find',
    'replace', 'join', 'items', 'keys', 'values', 'copy', 'setdefault', 'add', 'extend', 'title', 'splitlines',
    'split', 'getvalue', 'format', 'reverse', 'insert', 'isdigit', 'update', 'group', 'groups', 'end', 'start',
    'match', 'search', 'finditer', 'compile', 'partition', 'rpartition', 'count', 'write',
}


def expr_may_raise(node):
    """True when evaluating the expression / executing the simple statement may raise
    (restricted model, see module docstring)."""
    if node is None:
        return False
    for n in walk_shallow(node):
        if isinstance(n, (ast.Raise, ast.Assert)):
            return True
        if isinstance(n, ast.Call):
            d = dotted(n.func)
            if isinstance(n.func, ast.Name) and n.func.id in TOTAL_BUILTINS:
                if n.func.id == 'getattr' and len(n.args) < 3:
                    return True
                continue
            if isinstance(n.func, ast.Name) and n.func.id == 'getattr' and len(n.args) >= 3:
                continue
            if isinstance(n.func, ast.Attribute) and n.func.attr in TOTAL_METHODS:
                continue
            return True
        if isinstance(n, ast.Subscript) and isinstance(n.ctx, ast.Load) and not isinstance(n.slice, ast.Slice):
            return True
        if isinstance(n, ast.Assign):
            for t in n.targets:
                if isinstance(t, (ast.Tuple, ast.List)) and not isinstance(n.value, (ast.Tuple, ast.List)):
                    return True
        if isinstance(n, (ast.Yield, ast.YieldFrom, ast.Await)):
            # a generator can be resumed with throw(); not modelled as an exception source
            continue
        if isinstance(n, ast.Delete):
            return True
    return False


class Node:
    __slots__ = ('id', 'kind', 'ast', 'owner', 'succ', 'pred', 'copy_of', 'tag')

    def __init__(self, id, kind, ast_node=None, owner=None, tag=None):
        self.id = id
        self.kind = kind
        self.ast = ast_node
        self.owner = owner
        self.succ = []   # (Node, label)
        self.pred = []   # (Node, label)
        self.tag = tag

    @property
    def line(self):
        return getattr(self.ast, 'lineno', 0) if self.ast is not None else 0

    def __repr__(self):
        from .astutil import short
        return f'<N{self.id} {self.kind} L{self.line} {short(self.ast, 50) if self.ast is not None and self.kind != "for" else ""}>'


class _Ctx:
    """where control goes for break/continue/return/exception at the current point"""
    def __init__(self, brk=None, cont=None, ret=None, exc=None):
        self.brk, self.cont, self.ret, self.exc = brk, cont, ret, exc

    def replace(self, **kw):
        c = _Ctx(self.brk, self.cont, self.ret, self.exc)
        for k, v in kw.items():
            setattr(c, k, v)
        return c


class CFG:
    def __init__(self, func):
        self.func = func
        self.nodes = []
        self.entry = self._new('entry')
        self.exit = self._new('exit')
        self.raise_exit = self._new('raise')
        self._dom = None
        self._by_ast = {}

    def _new(self, kind, ast_node=None, owner=None, tag=None):
        n = Node(len(self.nodes), kind, ast_node, owner, tag)
        self.nodes.append(n)
        if ast_node is not None:
            self._by_ast.setdefault(id(ast_node), []).append(n)
        return n

    def edge(self, a, b, label='next'):
        if (b, label) not in a.succ:
            a.succ.append((b, label))
            b.pred.append((a, label))

    # ---------------------------------------------------------------- queries
    def nodes_for(self, ast_node):
        """CFG nodes whose ast is this AST node (several if inside a duplicated finally)"""
        return list(self._by_ast.get(id(ast_node), []))

    def node_of_stmt(self, ast_node):
        """CFG nodes that *execute* (part of) the statement containing ast_node: the stmt node
        itself, or the test/for/with node owning the expression."""
        n = ast_node
        while n is not None:
            got = self._by_ast.get(id(n))
            if got:
                return list(got)
            n = getattr(n, '_p', None)
        return []

    def reachable_from(self, start, avoid_nodes=(), avoid_edges=(), labels_skip=()):
        """set of nodes reachable from `start` (a node or iterable of nodes); `avoid_nodes` are not
        entered (start nodes are always included); avoid_edges is a set of (src, dst, label) or (src, label)."""
        avoid_nodes = set(avoid_nodes)
        avoid_edges = set(avoid_edges)
        starts = [start] if isinstance(start, Node) else list(start)
        seen = set(starts)
        stack = list(starts)
        while stack:
            n = stack.pop()
            for (m, lab) in n.succ:
                if lab in labels_skip:
                    continue
                if (n, m, lab) in avoid_edges or (n, lab) in avoid_edges:
                    continue
                if m in avoid_nodes or m in seen:
                    continue
                seen.add(m)
                stack.append(m)
        return seen

    def reachable(self):
        return self.reachable_from(self.entry)

    def can_reach(self, a, b, avoid_nodes=(), avoid_edges=(), labels_skip=()):
        return b in self.reachable_from(a, avoid_nodes, avoid_edges, labels_skip)

    def dominators(self):
        if self._dom is None:
            reach = self.reachable()
            order = [n for n in self.nodes if n in reach]
            full = set(order)
            dom = {n: set(full) for n in order}
            dom[self.entry] = {self.entry}
            changed = True
            while changed:
                changed = False
                for n in order:
                    if n is self.entry:
                        continue
                    preds = [p for (p, _) in n.pred if p in reach]
                    new = set(full)
                    for p in preds:
                        new &= dom[p]
                    new.add(n)
                    if new != dom[n]:
                        dom[n] = new
                        changed = True
            self._dom = dom
        return self._dom

    def dominates(self, a, b):
        d = self.dominators()
        return b in d and a in d[b]

    def edge_dominates(self, a, label, b, labels_skip=()):
        """every path entry -> b uses an out-edge of `a` labelled `label`"""
        if b not in self.reachable():
            return True
        return not self.can_reach(self.entry, b, avoid_edges={(a, label)}, labels_skip=labels_skip)

    def must_pass(self, src, dst, via, labels_skip=()):
        """every path src -> dst passes through a node of `via` (src itself does not count)"""
        via = set(via) if not isinstance(via, Node) else {via}
        return not self.can_reach(src, dst, avoid_nodes=via, labels_skip=labels_skip)

    def normal_exits(self):
        return [p for (p, lab) in self.exit.pred]

    def stmts(self):
        return [n for n in self.nodes if n.kind in ('stmt', 'test', 'for', 'with', 'except')]

    def loops_back_edges(self):
        """(src, dst) edges where dst dominates src"""
        out = []
        for n in self.reachable():
            for (m, lab) in n.succ:
                if self.dominates(m, n):
                    out.append((n, m, lab))
        return out


def _handler_catches_all(h):
    if h.type is None:
        return True
    names = []
    t = h.type
    elts = t.elts if isinstance(t, ast.Tuple) else [t]
    for e in elts:
        d = dotted(e)
        if d in ('Exception', 'BaseException'):
            return True
    return False


class _Builder:
    def __init__(self, func):
        self.f = func
        self.g = CFG(func)

    def build(self):
        g = self.g
        ctx = _Ctx(brk=None, cont=None, ret=lambda: g.exit, exc=lambda: g.raise_exit)
        body = self.f.body
        if isinstance(self.f.node, ast.Lambda):
            n = g._new('stmt', self.f.node.body)
            g.edge(g.entry, n)
            g.edge(n, g.exit, 'return')
            if expr_may_raise(self.f.node.body):
                g.edge(n, g.raise_exit, 'exc')
            return g
        outs = self.block(body, [(g.entry, 'next')], ctx)
        for (n, lab) in outs:
            g.edge(n, g.exit, lab if lab != 'next' else 'next')
        return g

    # each construct takes `ins`: list of (node,label) dangling edges, returns dangling outs
    def connect(self, ins, node):
        for (n, lab) in ins:
            self.g.edge(n, node, lab)

    def block(self, stmts, ins, ctx):
        for st in stmts:
            if not ins:
                # unreachable code: still build it (detached) so queries by AST find nodes
                pass
            ins = self.stmt(st, ins, ctx)
        return ins

    def exc_edge(self, node, ctx, force=False):
        if force or expr_may_raise(node.ast if node.kind != 'for' else node.ast.iter):
            tgt = ctx.exc()
            self.g.edge(node, tgt, 'exc')

    def stmt(self, st, ins, ctx):
        g = self.g
        if isinstance(st, ast.If):
            t = g._new('test', st.test, owner=st)
            self.connect(ins, t)
            self.exc_edge(t, ctx)
            outs = self.block(st.body, [(t, 'true')], ctx)
            if st.orelse:
                outs += self.block(st.orelse, [(t, 'false')], ctx)
            else:
                outs.append((t, 'false'))
            return outs
        if isinstance(st, ast.While):
            t = g._new('test', st.test, owner=st)
            self.connect(ins, t)
            self.exc_edge(t, ctx)
            brk_outs = []
            after = g._new('join', tag='while-after')
            lctx = ctx.replace(brk=lambda: after, cont=lambda: t)
            body_outs = self.block(st.body, [(t, 'true')], lctx)
            for (n, lab) in body_outs:
                g.edge(n, t, lab if lab != 'next' else 'next')
            const_true = isinstance(st.test, ast.Constant) and bool(st.test.value)
            outs = []
            if not const_true:
                if st.orelse:
                    outs = self.block(st.orelse, [(t, 'false')], ctx)
                else:
                    outs = [(t, 'false')]
            for (n, lab) in outs:
                g.edge(n, after, lab)
            return [(after, 'next')]
        if isinstance(st, (ast.For, ast.AsyncFor)):
            f = g._new('for', st, owner=st)
            self.connect(ins, f)
            self.exc_edge(f, ctx, force=True)
            after = g._new('join', tag='for-after')
            lctx = ctx.replace(brk=lambda: after, cont=lambda: f)
            body_outs = self.block(st.body, [(f, 'iter')], lctx)
            for (n, lab) in body_outs:
                g.edge(n, f, lab)
            if st.orelse:
                outs = self.block(st.orelse, [(f, 'done')], ctx)
            else:
                outs = [(f, 'done')]
            for (n, lab) in outs:
                g.edge(n, after, lab)
            return [(after, 'next')]
        if isinstance(st, (ast.With, ast.AsyncWith)):
            w = g._new('with', st, owner=st)
            self.connect(ins, w)
            self.exc_edge(w, ctx, force=True)
            return self.block(st.body, [(w, 'next')], ctx)
        if isinstance(st, ast.Try) or (hasattr(ast, 'TryStar') and isinstance(st, ast.TryStar)):
            return self.try_stmt(st, ins, ctx)
        if isinstance(st, ast.Return):
            n = g._new('stmt', st)
            self.connect(ins, n)
            if st.value is not None:
                self.exc_edge(n, ctx)
            g.edge(n, ctx.ret(), 'return')
            return []
        if isinstance(st, ast.Raise):
            n = g._new('stmt', st)
            self.connect(ins, n)
            g.edge(n, ctx.exc(), 'exc')
            return []
        if isinstance(st, ast.Break):
            n = g._new('stmt', st)
            self.connect(ins, n)
            g.edge(n, ctx.brk(), 'break')
            return []
        if isinstance(st, ast.Continue):
            n = g._new('stmt', st)
            self.connect(ins, n)
            g.edge(n, ctx.cont(), 'continue')
            return []
        if isinstance(st, (ast.FunctionDef, ast.AsyncFunctionDef, ast.ClassDef)):
            n = g._new('stmt', st)
            self.connect(ins, n)
            return [(n, 'next')]
        if hasattr(ast, 'Match') and isinstance(st, ast.Match):
            t = g._new('test', st.subject, owner=st)
            self.connect(ins, t)
            self.exc_edge(t, ctx)
            outs = []
            for case in st.cases:
                outs += self.block(case.body, [(t, 'true')], ctx)
            outs.append((t, 'false'))
            return outs
        # simple statement
        n = g._new('stmt', st)
        self.connect(ins, n)
        self.exc_edge(n, ctx)
        return [(n, 'next')]

    def try_stmt(self, st, ins, ctx):
        g = self.g
        has_finally = bool(st.finalbody)
        after = g._new('join', tag='try-after')

        # ---- continuation through `finally`, one copy per kind
        copies = {}

        def through_finally(kind, target_thunk):
            """return a node: entering it runs a copy of the finalbody, then goes to target"""
            if not has_finally:
                return target_thunk()
            key = kind
            if key in copies:
                return copies[key]
            head = g._new('join', tag=f'finally-{kind}')
            copies[key] = head
            outs = self.block(st.finalbody, [(head, 'next')], ctx)
            tgt = target_thunk()
            lab = {'normal': 'next', 'exc': 'exc', 'return': 'return', 'break': 'break', 'continue': 'continue'}[kind]
            for (n, l) in outs:
                g.edge(n, tgt, lab if kind != 'normal' else l)
            return head

        outer_exc = lambda: through_finally('exc', ctx.exc)
        inner_ret = (lambda: through_finally('return', ctx.ret))
        inner_brk = (lambda: through_finally('break', ctx.brk)) if ctx.brk else None
        inner_cont = (lambda: through_finally('continue', ctx.cont)) if ctx.cont else None

        # ---- handlers
        handler_nodes = []
        for h in st.handlers:
            hn = g._new('except', h, owner=st)
            handler_nodes.append(hn)
        catch_all = any(_handler_catches_all(h) for h in st.handlers)

        dispatch = {}

        def body_exc():
            # exceptions raised in the try body: may go to any handler; to outer unless a catch-all exists
            if 'd' not in dispatch:
                d = g._new('join', tag='dispatch')
                dispatch['d'] = d
                for hn in handler_nodes:
                    g.edge(d, hn, 'exc')
                if not catch_all or not handler_nodes:
                    g.edge(d, outer_exc(), 'exc')
            return dispatch['d']

        body_ctx = _Ctx(brk=inner_brk, cont=inner_cont, ret=inner_ret, exc=body_exc)
        body_outs = self.block(st.body, ins, body_ctx)
        else_ctx = _Ctx(brk=inner_brk, cont=inner_cont, ret=inner_ret, exc=outer_exc)
        if st.orelse:
            body_outs = self.block(st.orelse, body_outs, else_ctx)
        normal_tgt = None
        outs_all = list(body_outs)
        for hn, h in zip(handler_nodes, st.handlers):
            outs_all += self.block(h.body, [(hn, 'next')], else_ctx)
        if has_finally:
            if outs_all:
                head = through_finally('normal', lambda: after)
                for (n, lab) in outs_all:
                    g.edge(n, head, lab)
        else:
            for (n, lab) in outs_all:
                g.edge(n, after, lab)
        return [(after, 'next')]


def build_cfg(func):
    return _Builder(func).build()
