"""Self-validation of the checkers (thorough tier).

Benign twins: behaviour-preserving rewrites of the whole package written to a scratch copy outside /repo and
/verif; every rule must stay silent on them.  Mutants: the confirmed seeded patches of /verif/seeded for the
property (and the reverts of the fix commits); the rule set must report each.  Nothing here touches /repo.
"""
import ast
import glob
import json
import os
import shutil
import subprocess
import sys
import tempfile

VERIF = os.path.dirname(os.path.dirname(os.path.abspath(__file__)))


# ------------------------------------------------------------------ benign transformations
class _RenameLocals(ast.NodeTransformer):
    """append a suffix to local variables of top-level functions / methods (consistently in nested scopes)"""
    def __init__(self, suffix='_r'):
        self.suffix = suffix

    def _locals_of(self, fn):
        params = set()
        for n in ast.walk(fn):
            if isinstance(n, (ast.FunctionDef, ast.AsyncFunctionDef, ast.Lambda)):
                a = n.args
                for x in a.posonlyargs + a.args + a.kwonlyargs:
                    params.add(x.arg)
                if a.vararg:
                    params.add(a.vararg.arg)
                if a.kwarg:
                    params.add(a.kwarg.arg)
        declared = set()
        for n in ast.walk(fn):
            if isinstance(n, (ast.Global, ast.Nonlocal)):
                declared |= set(n.names)
        stored = set()
        for n in ast.walk(fn):
            if isinstance(n, ast.Name) and isinstance(n.ctx, (ast.Store, ast.Del)):
                stored.add(n.id)
            if isinstance(n, ast.ExceptHandler) and n.name:
                stored.add('!' + n.name)       # except-as names are strings, keep them
        inner_defs = {n.name for n in ast.walk(fn) if isinstance(n, (ast.FunctionDef, ast.ClassDef)) and n is not fn}
        keep = {s[1:] for s in stored if s.startswith('!')}
        return {s for s in stored if not s.startswith('!')} - params - declared - inner_defs - keep - {'_', '__class__'}

    def visit_FunctionDef(self, node):
        names = self._locals_of(node)
        suffix = self.suffix

        class R(ast.NodeTransformer):
            def visit_Name(self, n):
                if n.id in names:
                    return ast.copy_location(ast.Name(id=n.id + suffix, ctx=n.ctx), n)
                return n
        new = R().visit(node)
        return new   # do not descend again (nested functions already handled)

    visit_AsyncFunctionDef = visit_FunctionDef


class _NotForms(ast.NodeTransformer):
    """`a is not b` -> `not a is b`;  `a != b` -> `not a == b`;  `a not in b` -> `not a in b`"""
    def visit_Compare(self, node):
        self.generic_visit(node)
        if len(node.ops) == 1:
            op = node.ops[0]
            m = {ast.IsNot: ast.Is, ast.NotEq: ast.Eq, ast.NotIn: ast.In}
            for k, v in m.items():
                if isinstance(op, k):
                    inner = ast.Compare(left=node.left, ops=[v()], comparators=node.comparators)
                    return ast.copy_location(ast.UnaryOp(op=ast.Not(), operand=inner), node)
        return node


class _AugToAssign(ast.NodeTransformer):
    """`x += e` -> `x = x + e` for simple names"""
    def visit_AugAssign(self, node):
        self.generic_visit(node)
        if isinstance(node.target, ast.Name) and isinstance(node.op, (ast.Add, ast.Sub)):
            load = ast.Name(id=node.target.id, ctx=ast.Load())
            return ast.copy_location(ast.Assign(targets=[ast.Name(id=node.target.id, ctx=ast.Store())],
                                                value=ast.BinOp(left=load, op=node.op, right=node.value), lineno=node.lineno), node)
        return node


class _SwapIfElse(ast.NodeTransformer):
    """`if c: A else: B` -> `if not c: B else: A` (only when both branches exist and there is no elif chain)"""
    def visit_If(self, node):
        self.generic_visit(node)
        if node.orelse and not (len(node.orelse) == 1 and isinstance(node.orelse[0], ast.If)):
            return ast.copy_location(ast.If(test=ast.UnaryOp(op=ast.Not(), operand=node.test), body=node.orelse, orelse=node.body), node)
        return node


class _PadStatements(ast.NodeTransformer):
    """insert `pass` at the start of every function body and between statements of loops (layout / position independence)"""
    def visit_FunctionDef(self, node):
        self.generic_visit(node)
        body = node.body
        if body and isinstance(body[0], ast.Expr) and isinstance(body[0].value, ast.Constant) and isinstance(body[0].value.value, str):
            node.body = [body[0], ast.Pass()] + body[1:]
        else:
            node.body = [ast.Pass()] + body
        return node

    def visit_For(self, node):
        self.generic_visit(node)
        node.body = [ast.Pass()] + node.body
        return node

    def visit_While(self, node):
        self.generic_visit(node)
        node.body = node.body + []
        return node


class _WhileTrue(ast.NodeTransformer):
    """`while c: body` -> `while True: if not c: break; body` (loops without else)"""
    def visit_While(self, node):
        self.generic_visit(node)
        if not node.orelse and not (isinstance(node.test, ast.Constant) and node.test.value is True):
            guard = ast.If(test=ast.UnaryOp(op=ast.Not(), operand=node.test), body=[ast.Break()], orelse=[])
            return ast.copy_location(ast.While(test=ast.Constant(value=True), body=[guard] + node.body, orelse=[]), node)
        return node


class _ExtractTemps(ast.NodeTransformer):
    """`return f(...)` -> `_ret = f(...); return _ret` and `x.m(g(y))` statement-level nesting kept; exercises def-use following"""
    def visit_Return(self, node):
        if node.value is not None and isinstance(node.value, (ast.Call, ast.BinOp, ast.IfExp, ast.Tuple)) and not any(
                isinstance(x, (ast.Yield, ast.YieldFrom)) for x in ast.walk(node.value)):
            tmp = ast.Name(id='_ret_value', ctx=ast.Store())
            return [ast.copy_location(ast.Assign(targets=[tmp], value=node.value, lineno=node.lineno), node),
                    ast.copy_location(ast.Return(value=ast.Name(id='_ret_value', ctx=ast.Load())), node)]
        return node


class _AddLogging(ast.NodeTransformer):
    """`import logging; _log = logging.getLogger(__name__)` at module level and a `_log.debug(...)` call at the start of every function
    body and of every loop body (a maintainer adding trace output)"""
    def visit_Module(self, node):
        self.generic_visit(node)
        i = 0
        while i < len(node.body) and (isinstance(node.body[i], ast.Expr) and isinstance(node.body[i].value, ast.Constant)
                                      or isinstance(node.body[i], ast.ImportFrom) and node.body[i].module == '__future__'):
            i += 1
        extra = ast.parse('import logging\n_log = logging.getLogger(__name__)\n').body
        node.body[i:i] = extra
        return node

    @staticmethod
    def _call(msg):
        return ast.parse(f'_log.debug({msg!r})').body[0]

    def visit_FunctionDef(self, node):
        self.generic_visit(node)
        body = node.body
        k = 1 if body and isinstance(body[0], ast.Expr) and isinstance(body[0].value, ast.Constant) and isinstance(body[0].value.value, str) else 0
        node.body = body[:k] + [self._call('enter ' + node.name)] + body[k:]
        return node

    def visit_For(self, node):
        self.generic_visit(node)
        node.body = [self._call('loop')] + node.body
        return node

    def visit_While(self, node):
        self.generic_visit(node)
        node.body = [self._call('loop')] + node.body
        return node


TWINS = {
    'unparse-roundtrip': [],
    'rename-locals': [_RenameLocals],
    'not-forms': [_NotForms],
    'aug-to-assign': [_AugToAssign],
    'swap-if-else': [_SwapIfElse],
    'pad-statements': [_PadStatements],
    'while-true-break': [_WhileTrue],
    'return-via-temp': [_ExtractTemps],
    'add-logging': [_AddLogging],
}


def make_twin(root, kind):
    tmp = tempfile.mkdtemp(prefix='ombott-twin.', dir='/var/tmp')
    src_pkg = os.path.join(root, 'ombott')
    shutil.copytree(src_pkg, os.path.join(tmp, 'ombott'), ignore=shutil.ignore_patterns('__pycache__'))
    for dirpath, _, files in os.walk(os.path.join(tmp, 'ombott')):
        for fn in files:
            if not fn.endswith('.py'):
                continue
            p = os.path.join(dirpath, fn)
            with open(p, encoding='utf8') as f:
                text = f.read()
            tree = ast.parse(text)
            for T in TWINS[kind]:
                tree = T().visit(tree)
            ast.fix_missing_locations(tree)
            with open(p, 'w', encoding='utf8') as f:
                f.write(ast.unparse(tree) + '\n')
    return tmp


def make_mutant(root, patch):
    tmp = tempfile.mkdtemp(prefix='ombott-mut.', dir='/var/tmp')
    shutil.copytree(os.path.join(root, 'ombott'), os.path.join(tmp, 'ombott'), ignore=shutil.ignore_patterns('__pycache__'))
    r = subprocess.run(['patch', '-p1', '-s', '--no-backup-if-mismatch', '-d', tmp, '-i', os.path.abspath(patch)], capture_output=True, text=True)
    if r.returncode != 0:
        shutil.rmtree(tmp, ignore_errors=True)
        return None
    return tmp


def run_check(pid, root):
    env = dict(os.environ, SA_NO_EVIDENCE='1', SA_NO_BATTERY='1')
    r = subprocess.run([sys.executable, '-B', '-m', 'sa.run', pid, '--root', root, '--tier', 'quick'], cwd=VERIF,
                       capture_output=True, text=True, env=env)
    lines = [l.strip() for l in (r.stdout + r.stderr).splitlines() if l.strip().startswith(('violated', 'ANALYSIS-ERROR', 'VIOLATION'))]
    return r.returncode, lines


def seeded_for(pid):
    out = []
    for d in sorted(glob.glob(os.path.join(VERIF, 'seeded', '*'))):
        mp = os.path.join(d, 'meta.json')
        pp = os.path.join(d, 'patch.diff')
        if os.path.exists(os.path.join(d, 'patch.rebased.diff')):
            pp = os.path.join(d, 'patch.rebased.diff')      # the same change re-made on top of later fix commits
        if not (os.path.exists(mp) and os.path.exists(pp)):
            continue
        try:
            meta = json.load(open(mp))
        except Exception:
            continue
        props = meta.get('breaks_property')
        props = props if isinstance(props, list) else [props]
        expected = set(meta.get('detected_by') or props)
        if pid in props or pid in expected:
            out.append((os.path.basename(d), pp))
    return out


def benign_patches():
    """confirmed behaviour-preserving refactorings written by independent sub-agents (/verif/benign): [(name, patch, may_be_undecided_for)]"""
    out = []
    for d in sorted(glob.glob(os.path.join(VERIF, 'benign', '*'))):
        pp = os.path.join(d, 'patch.diff')
        mp = os.path.join(d, 'meta.json')
        if not os.path.exists(pp):
            continue
        und = set()
        try:
            meta = json.load(open(mp))
            exp = meta.get('expected', '')
            if exp.startswith('undecided'):
                import re as _re
                und = set(_re.findall(r'C\d\d', exp))
        except Exception:
            pass
        out.append((os.path.basename(d), pp, und))
    return out


def run_battery(pid, root):
    """returns dict(twins=[...], mutants=[...], noisy=[...], missed=[...])"""
    import concurrent.futures as cf
    res = dict(twins=[], mutants=[], noisy=[], missed=[], undecided=[], skipped=[], benign=[])

    def twin_job(kind):
        tmp = make_twin(root, kind)
        try:
            rc, lines = run_check(pid, tmp)
        finally:
            shutil.rmtree(tmp, ignore_errors=True)
        return ('twin', kind, rc, lines)

    def mutant_job(item):
        name, patch = item
        tmp = make_mutant(root, patch)
        if tmp is None:
            return ('skip', name, None, [])
        try:
            rc, lines = run_check(pid, tmp)
        finally:
            shutil.rmtree(tmp, ignore_errors=True)
        return ('mutant', name, rc, lines)

    def benign_job(item):
        name, patch, und = item
        tmp = make_mutant(root, patch)
        if tmp is None:
            return ('skip', name, None, [])
        try:
            rc, lines = run_check(pid, tmp)
        finally:
            shutil.rmtree(tmp, ignore_errors=True)
        if rc == 2 and pid in und:
            rc = 0      # recorded as undecidable for this refactoring (never a VIOLATION)
        return ('benign', name, rc, lines)

    jobs = [(twin_job, k) for k in TWINS] + [(mutant_job, it) for it in seeded_for(pid)] + [(benign_job, it) for it in benign_patches()]
    with cf.ThreadPoolExecutor(max_workers=min(16, max(1, len(jobs)))) as ex:
        for (what, name, rc, lines) in ex.map(lambda j: j[0](j[1]), jobs):
            if what == 'twin':
                res['twins'].append(dict(kind=name, rc=rc, lines=lines[:3]))
                if rc == 1:
                    res['noisy'].append(name)
                elif rc != 0:
                    res['undecided'].append(name)
            elif what == 'benign':
                res['benign'].append(dict(name=name, rc=rc))
                if rc == 1:
                    res['noisy'].append('benign:' + name)
                elif rc != 0:
                    res['undecided'].append('benign:' + name)
            elif what == 'skip':
                res['skipped'].append(name)
            else:
                res['mutants'].append(dict(name=name, rc=rc, lines=lines[:2]))
                if rc != 1:
                    res['missed'].append(name)
    return res
