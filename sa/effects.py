"""Effect (write-set) analysis: which functions write locations that outlive a request.

A *shared location* is a module-level variable, a class attribute, or a closure cell of a
decorator/factory that is shared by all instances.  Writes are found structurally:

  kind            construct
  ------------    -----------------------------------------------------------
  global-assign   `global X` + assignment to X
  item-assign     G[k] = v      (G resolves to a module-level / class-level object)
  slice-assign    G[a:b] = v
  item-del        del G[k]
  attr-assign     C.attr = v    (C resolves to a class or module)
  call:<m>        G.<m>(...)    with <m> a mutating container method
  nonlocal        assignment to a name declared `nonlocal`

`G` may be reached through a local alias (`buf = _MODULE_LIST`): receivers are resolved
through reaching definitions.
"""
import ast

from .astutil import walk_shallow, dotted, call_attr, short, src, target_names

MUTATORS = {'append', 'extend', 'insert', 'clear', 'update', 'add', 'pop', 'popitem', 'remove', 'setdefault', 'discard',
            'sort', 'reverse', 'appendleft', 'write', 'truncate', '__setitem__', '__delitem__'}
MUTABLE_CTORS = {'list', 'dict', 'set', 'defaultdict', 'OrderedDict', 'deque', 'bytearray', 'collections.defaultdict',
                 'collections.OrderedDict', 'collections.deque', 'BytesIO', 'StringIO'}


def module_level_kind(m, name):
    """what a module-level name is bound to: 'mutable' / 'class' / 'instance' / 'other' / None"""
    if name in m.classes:
        return 'class'
    vals = m.assigns.get(name)
    if not vals:
        return None
    v = vals[-1]
    if isinstance(v, (ast.List, ast.Dict, ast.Set, ast.ListComp, ast.DictComp, ast.SetComp)):
        return 'mutable'
    if isinstance(v, ast.Call):
        d = dotted(v.func) or ''
        if d in MUTABLE_CTORS:
            return 'mutable'
        return 'instance'
    return 'other'


def resolve_shared(P, f, expr, at_node, depth=0):
    """If `expr` (evaluated in f at at_node) denotes a shared object return a descriptor string, else None.
    Descriptors: 'global:<module>.<name>', 'classattr:<Class>.<name>', 'class:<Class>'"""
    m = f.module
    if isinstance(expr, ast.Name):
        name = expr.id
        if name in f.params and not isinstance(f.node, ast.Lambda):
            # a parameter whose default is a mutable object built once, at definition time: every call that omits the argument works on that one object
            a_ = f.node.args
            pos_ = a_.posonlyargs + a_.args
            dmap_ = dict(zip([x.arg for x in pos_[len(pos_) - len(a_.defaults):]], a_.defaults))
            dmap_.update({x.arg: d for x, d in zip(a_.kwonlyargs, a_.kw_defaults) if d is not None})
            dv_ = dmap_.get(name)
            if dv_ is not None and (isinstance(dv_, (ast.List, ast.Dict, ast.Set, ast.ListComp, ast.DictComp, ast.SetComp)) or
                                    (isinstance(dv_, ast.Call) and (dotted(dv_.func) or '') in MUTABLE_CTORS)):
                ds_ = f.rd.at(at_node, name)
                if ds_ and all(d.kind == 'param' for d in ds_):
                    return f'default-arg:{f.fq}.{name}'
        if f.rd.is_local(name) or name in f.params:
            if depth > 3:
                return None
            defs = f.rd.at(at_node, name)
            outs = set()
            for d in defs:
                if d.kind in ('assign', 'walrus') and d.value is not None and isinstance(d.value, (ast.Name, ast.Attribute, ast.Call)):
                    r = resolve_shared(P, f, d.value, d.node, depth + 1)
                    if r:
                        outs.add(r)
            return sorted(outs)[0] if outs else None
        # free variable of an enclosing function?
        pf = f.parent
        while pf is not None:
            if pf.rd.is_local(name) or name in pf.params:
                return None   # closure cell: handled by the nonlocal rule
            pf = pf.parent
        k = module_level_kind(m, name)
        if k in ('mutable', 'instance'):
            return f'global:{m.name}.{name}'
        if k == 'class':
            return f'class:{m.name}:{name}'
        r = P.resolve_name(m, name)
        if r and r[0] == 'class':
            return f'class:{r[1].fq}'
        if r and r[0] == 'module':
            return f'module:{r[1].name}'
        return None
    if isinstance(expr, ast.Attribute):
        base = expr.value
        # cls.attr / Class.attr / self.__class__.attr / module.attr
        if isinstance(base, ast.Name) and base.id == 'cls' and 'cls' in f.params[:1] and f.owner_cls is not None:
            c = f.owner_cls
            for k in P.mro(c):
                if expr.attr in k.attrs:
                    return f'classattr:{k.fq}.{expr.attr}'
            return f'classattr:{c.fq}.{expr.attr}'
        r = resolve_shared(P, f, base, at_node, depth + 1) if isinstance(base, (ast.Name, ast.Attribute)) else None
        if r and r.startswith('class:'):
            return f'classattr:{r[6:]}.{expr.attr}'
        if r and r.startswith('module:'):
            mod = P.modules.get(r[7:])
            if mod is not None and module_level_kind(mod, expr.attr) in ('mutable', 'instance'):
                return f'global:{mod.name}.{expr.attr}'
        if isinstance(base, ast.Name) and base.id == 'self' and f.owner_cls is not None:
            # self.X where X is only a class-level mutable (never assigned on instances)
            c = f.owner_cls
            for k in P.mro(c):
                v = k.attrs.get(expr.attr)
                if v is not None and (isinstance(v, (ast.List, ast.Dict, ast.Set, ast.ListComp, ast.DictComp, ast.SetComp)) or
                                      (isinstance(v, ast.Call) and (dotted(v.func) or '') in MUTABLE_CTORS)):
                    if not _assigned_on_instances(P, k, expr.attr):
                        return f'classattr:{k.fq}.{expr.attr}'
        return None
    if isinstance(expr, ast.Call):
        # Class.get('name') of the configuration holders / getattr(Class, 'name'): the class-level default object itself
        fn = expr.func
        cls_e = key = None
        if isinstance(fn, ast.Attribute) and fn.attr == 'get' and expr.args and isinstance(expr.args[0], ast.Constant) and isinstance(expr.args[0].value, str):
            cls_e, key = fn.value, expr.args[0].value
        elif isinstance(fn, ast.Name) and fn.id == 'getattr' and len(expr.args) >= 2 and isinstance(expr.args[1], ast.Constant) and isinstance(expr.args[1].value, str):
            cls_e, key = expr.args[0], expr.args[1].value
        if cls_e is not None and isinstance(cls_e, (ast.Name, ast.Attribute)):
            r = resolve_shared(P, f, cls_e, at_node, depth + 1)
            if r and r.startswith('class:'):
                return f'classattr:{r[6:]}.{key}'
        return None
    return None


def _assigned_on_instances(P, c, attr):
    for k in P.classes.values():
        if c in P.mro(k) or k is c:
            for fn in k.methods.values():
                for n in walk_shallow(fn.node):
                    if isinstance(n, (ast.Assign, ast.AugAssign)):
                        ts = n.targets if isinstance(n, ast.Assign) else [n.target]
                        for t in ts:
                            if isinstance(t, ast.Attribute) and isinstance(t.value, ast.Name) and t.value.id == 'self' and t.attr == attr:
                                return True
    return False


def shared_writes(P, funcs=None):
    """list of dict(func, node, target, kind)"""
    out = []
    for f in (funcs if funcs is not None else P.all_funcs()):
        if isinstance(f.node, ast.Lambda):
            continue
        g = f.cfg
        globals_decl = set()
        nonlocals = set()
        for n in walk_shallow(f.node):
            if isinstance(n, ast.Global):
                globals_decl |= set(n.names)
            if isinstance(n, ast.Nonlocal):
                nonlocals |= set(n.names)
        for n in walk_shallow(f.node):
            at = None

            def cfgnode():
                ns = g.node_of_stmt(n)
                return ns[0] if ns else g.entry
            if isinstance(n, (ast.Assign, ast.AugAssign, ast.AnnAssign)):
                targets = n.targets if isinstance(n, ast.Assign) else [n.target]
                flat = []
                for t in targets:
                    if isinstance(t, (ast.Tuple, ast.List)):
                        flat.extend(t.elts)
                    else:
                        flat.append(t)
                for t in flat:
                    if isinstance(t, ast.Name):
                        if t.id in globals_decl:
                            out.append(dict(func=f, node=n, target=f'global:{f.module.name}.{t.id}', kind='global-assign'))
                        elif t.id in nonlocals:
                            # a closure that never leaves the call that made it (only ever called there) writes that call's own variable
                            pf_ = f.parent
                            local_only = False
                            if pf_ is not None and not isinstance(pf_.node, ast.Lambda):
                                uses_ = [x_ for x_ in ast.walk(pf_.node) if isinstance(x_, ast.Name) and x_.id == f.name and isinstance(x_.ctx, ast.Load)]
                                local_only = bool(uses_) and all(isinstance(getattr(x_, '_p', None), ast.Call) and x_._p.func is x_ for x_ in uses_)
                            if not local_only:
                                out.append(dict(func=f, node=n, target=f'cell:{f.fq}.{t.id}', kind='nonlocal'))
                    elif isinstance(t, ast.Subscript):
                        r = resolve_shared(P, f, t.value, cfgnode())
                        if r and not r.startswith(('class:', 'module:')):
                            out.append(dict(func=f, node=n, target=r,
                                            kind='slice-assign' if isinstance(t.slice, ast.Slice) else 'item-assign'))
                    elif isinstance(t, ast.Attribute) and isinstance(t.value, ast.Name) and t.value.id == 'cls' and f.params[:1] == ['cls'] and f.owner_cls is not None \
                            and any(isinstance(d_, ast.Name) and d_.id == 'classmethod' for d_ in f.node.decorator_list) \
                            and all(d_.kind == 'param' for d_ in f.rd.at(cfgnode(), 'cls')):
                        # `cls.x = ..` in a classmethod: an attribute of the class object, one for every instance and thread
                        out.append(dict(func=f, node=n, target=f'classattr:{f.owner_cls.fq}.{t.attr}', kind='attr-assign'))
                    elif isinstance(t, ast.Attribute) and f.owner_cls is not None and (
                            (isinstance(t.value, ast.Attribute) and t.value.attr == '__class__' and isinstance(t.value.value, ast.Name) and t.value.value.id == 'self') or
                            (isinstance(t.value, ast.Call) and dotted(t.value.func) == 'type' and len(t.value.args) == 1 and dotted(t.value.args[0]) == 'self')):
                        # `self.__class__.x = ..` / `type(self).x = ..`
                        out.append(dict(func=f, node=n, target=f'classattr:{f.owner_cls.fq}.{t.attr}', kind='attr-assign'))
                    elif isinstance(t, ast.Attribute):
                        r = resolve_shared(P, f, t.value, cfgnode()) if isinstance(t.value, (ast.Name, ast.Attribute)) else None
                        if r and r.startswith(('class:', 'module:')):
                            out.append(dict(func=f, node=n, target=f'{r}.{t.attr}', kind='attr-assign'))
                        elif r and r.startswith(('classattr:', 'global:')):
                            # cls._pool.item = ... : an attribute of an object that exists once per class / module
                            out.append(dict(func=f, node=n, target=f'{r}.{t.attr}', kind='attr-assign'))
            elif isinstance(n, ast.Delete):
                for t in n.targets:
                    if isinstance(t, ast.Subscript):
                        r = resolve_shared(P, f, t.value, cfgnode())
                        if r and not r.startswith(('class:', 'module:')):
                            out.append(dict(func=f, node=n, target=r, kind='item-del'))
            elif isinstance(n, ast.Call) and isinstance(n.func, ast.Attribute) and n.func.attr in MUTATORS:
                recv = n.func.value
                while isinstance(recv, ast.Subscript):
                    recv = recv.value      # self._hooks[name].append(...) mutates what self._hooks holds
                r = resolve_shared(P, f, recv, cfgnode()) if isinstance(recv, (ast.Name, ast.Attribute)) else None
                if r and not r.startswith(('class:', 'module:')):
                    out.append(dict(func=f, node=n, target=r, kind=f'call:{n.func.attr}'))
            elif isinstance(n, ast.Call) and isinstance(n.func, ast.Name) and n.func.id == 'setattr' and len(n.args) == 3:
                r = resolve_shared(P, f, n.args[0], cfgnode()) if isinstance(n.args[0], (ast.Name, ast.Attribute)) else None
                if r and r.startswith(('class:', 'module:')):
                    out.append(dict(func=f, node=n, target=f'{r}.{short(n.args[1], 30)}', kind='attr-assign'))
    return out


CACHE_DECOS = {'lru_cache', 'cache', 'functools.lru_cache', 'functools.cache', 'cached', 'memoize'}
REQUEST_PATH_APP_METHODS = {'wsgi', '__call__', '_handle', '_cast', 'default_error_handler', 'handler', 'to_route', 'emit'}


def extra_shared_writes(P, funcs):
    """three more kinds of writes to state that outlives the request:
       memo          a function wrapped in functools.lru_cache / cache (results - and arguments - are kept process-wide)
       config-object attribute / item store on an object taken out of a configuration mapping (errors_map responses ...)
       app-container item store / mutator call on a container attribute of the application object inside a request-path method"""
    out = []
    for f in funcs:
        if isinstance(f.node, ast.Lambda):
            continue
        for d in getattr(f.node, 'decorator_list', []):
            dn = dotted(d.func) if isinstance(d, ast.Call) else dotted(d)
            if dn in CACHE_DECOS:
                out.append(dict(func=f, node=f.node, target=f'memo:{f.fq}', kind='memo'))
        g = f.cfg
        # default-argument object: a parameter whose default is a mutable literal is one object for every call that does not pass it; writing into it is a
        # write to state that outlives the call
        a_ = getattr(f.node, 'args', None)
        if a_ is not None and not isinstance(f.node, ast.Lambda):
            pos_ = a_.posonlyargs + a_.args
            mut_defaults = {}
            for name_, d_ in list(zip([x.arg for x in pos_][len(pos_) - len(a_.defaults):], a_.defaults)) + \
                    [(x.arg, d2) for x, d2 in zip(a_.kwonlyargs, a_.kw_defaults) if d2 is not None]:
                if isinstance(d_, (ast.Dict, ast.List, ast.Set)) or (isinstance(d_, ast.Call) and (dotted(d_.func) or '') in MUTABLE_CTORS):
                    mut_defaults[name_] = d_
            for st in walk_shallow(f.node) if mut_defaults else []:
                base = None
                kind = None
                if isinstance(st, (ast.Assign, ast.AugAssign)):
                    for t in (st.targets if isinstance(st, ast.Assign) else [st.target]):
                        if isinstance(t, ast.Subscript) and isinstance(t.value, ast.Name) and t.value.id in mut_defaults:
                            base, kind = t.value.id, 'item-assign'
                elif isinstance(st, ast.Call) and isinstance(st.func, ast.Attribute) and st.func.attr in MUTATORS and isinstance(st.func.value, ast.Name) \
                        and st.func.value.id in mut_defaults:
                    base, kind = st.func.value.id, f'call:{st.func.attr}'
                if base is not None:
                    ns_ = g.node_of_stmt(st)
                    if ns_ and all(d.kind == 'param' for d in f.rd.at(ns_[0], base)):
                        out.append(dict(func=f, node=st, target=f'default-arg:{f.fq}.{base}', kind=kind))
        # closure-object: a nested function that outlives the call of its enclosing function (it is returned / stored) and writes into an
        # object of that enclosing scope: one object for everybody who later calls the closure
        if f.parent is not None and not isinstance(f.parent.node, ast.Lambda):
            pf = f.parent
            escapes = any(isinstance(x, ast.Return) and x.value is not None and any(isinstance(y, ast.Name) and y.id == f.name for y in ast.walk(x.value))
                          for x in walk_shallow(pf.node))
            if escapes:
                enc = set(pf.params) | set(pf.rd.locals)
                mine = set(f.params) | set(f.rd.locals)
                for st in walk_shallow(f.node):
                    tg = st.targets if isinstance(st, ast.Assign) else ([st.target] if isinstance(st, ast.AugAssign) else [])
                    flat = []
                    for t in tg:
                        flat += list(t.elts) if isinstance(t, (ast.Tuple, ast.List)) else [t]
                    for t in flat:
                        b = t
                        while isinstance(b, (ast.Attribute, ast.Subscript)):
                            b = b.value
                        if isinstance(t, (ast.Attribute, ast.Subscript)) and isinstance(b, ast.Name) and b.id in enc and b.id not in mine and b.id not in ('self', 'cls'):
                            out.append(dict(func=f, node=st, target=f'closure-object:{pf.fq}.{b.id}', kind='attr-assign' if isinstance(t, ast.Attribute) else 'item-assign'))
        # class-object handed out: a function returns a mutable container that exists once per class (`return cls._empty`)
        oc = f.owner_cls
        if oc is not None:
            for st in walk_shallow(f.node):
                if isinstance(st, ast.Return) and isinstance(st.value, ast.Attribute) and isinstance(st.value.value, ast.Name) \
                        and st.value.value.id in ('cls', 'self', oc.name) and st.value.attr in oc.attrs:
                    cv = oc.attrs[st.value.attr]
                    if isinstance(cv, (ast.Dict, ast.List, ast.Set)) and not _assigned_on_instances(P, oc, st.value.attr):
                        out.append(dict(func=f, node=st, target=f'class-object:{oc.fq}.{st.value.attr}', kind='handed-out'))
        # default-app write: a module-level helper writes through Globals.request / Globals.response (the default application's objects),
        # whichever application is serving the request
        if f.cls is None and f.parent is None and f.module.name == 'ombott.ombott':
            for st in walk_shallow(f.node):
                tg = st.targets if isinstance(st, ast.Assign) else ([st.target] if isinstance(st, ast.AugAssign) else [])
                for t in tg:
                    b = t
                    while isinstance(b, (ast.Attribute, ast.Subscript)):
                        b = b.value
                    if isinstance(t, (ast.Attribute, ast.Subscript)) and isinstance(b, ast.Name) and f.rd.is_local(b.id):
                        ns = g.node_of_stmt(st)
                        for d in (f.rd.at(ns[0], b.id) if ns else []):
                            if d.value is not None and (dotted(d.value) or '').startswith('Globals.'):
                                out.append(dict(func=f, node=st, target=f'default-app:{dotted(d.value)}', kind='attr-assign' if isinstance(t, ast.Attribute) else 'item-assign'))
        # module-object handed out: a per-request accessor returns (or stores in the request environ) a mutable object created once at import
        if f.module.name.startswith('ombott.request_pkg') and f.cls is not None:
            for st in walk_shallow(f.node):
                vals = []
                if isinstance(st, ast.Return) and st.value is not None:
                    vals.append(st.value)
                elif isinstance(st, ast.Assign) and any(isinstance(t, ast.Subscript) and (dotted(t.value) or '').endswith('environ') for t in st.targets):
                    vals.append(st.value)
                for v in vals:
                    ns = g.node_of_stmt(st)
                    cands = [v] if isinstance(v, ast.Name) else []
                    if isinstance(v, ast.Name) and f.rd.is_local(v.id) and ns:
                        cands = [d.value for d in f.rd.at(ns[0], v.id) if d.kind == 'assign' and isinstance(d.value, ast.Name)]
                    for c_ in cands:
                        if isinstance(c_, ast.Name) and not f.rd.is_local(c_.id) and len(f.module.assigns.get(c_.id, ())) == 1:
                            mv = f.module.assigns[c_.id][0]
                            if isinstance(mv, (ast.Dict, ast.List, ast.Set)) or (isinstance(mv, ast.Call) and (dotted(mv.func) or '').split('.')[-1] not in
                                                                                  ('compile', 'frozenset', 'tuple', 'getLogger', 'namedtuple', 'TypeVar', 'object')):
                                out.append(dict(func=f, node=st, target=f'module-object:{f.module.name}.{c_.id}', kind='handed-to-request'))
        for n in walk_shallow(f.node):
            targets = []
            if isinstance(n, ast.Assign):
                targets = n.targets
            elif isinstance(n, ast.AugAssign):
                targets = [n.target]
            for t in targets:
                base = None
                kind = None
                if isinstance(t, ast.Attribute) and isinstance(t.value, ast.Name) and t.value.id not in ('self', 'cls'):
                    base, kind = t.value, 'attr-assign'
                elif isinstance(t, ast.Subscript) and isinstance(t.value, ast.Name):
                    base, kind = t.value, 'item-assign'
                if base is not None and (f.rd.is_local(base.id)):
                    ns = g.node_of_stmt(n)
                    if ns:
                        cl = f.rd.closure_nodes(base, ns[0], follow_mut=False)
                        if any(isinstance(x, ast.Attribute) and x.attr in ('errors_map', 'domain_map') for x in cl) and \
                                any((isinstance(x, ast.Call) and call_attr(x) == 'get') or isinstance(x, ast.Subscript) for x in cl):
                            out.append(dict(func=f, node=n, target='config-object:errors_map[...]' + ('.' + t.attr if isinstance(t, ast.Attribute) else '[...]'), kind=kind))
                # self.<attr>[...] = / self.<attr>.<attr2> on the application object in a request-path method
                if f.owner_cls is not None and f.owner_cls.name == 'Ombott' and f.name in REQUEST_PATH_APP_METHODS:
                    if isinstance(t, ast.Subscript):
                        d0 = dotted(t.value) or ''
                        if d0.startswith('self.') and d0.count('.') == 1 and d0.split('.')[1] not in ('request', 'response'):
                            out.append(dict(func=f, node=n, target=f'app-container:{d0}', kind='item-assign'))
            if isinstance(n, ast.Call) and isinstance(n.func, ast.Attribute) and n.func.attr in MUTATORS:
                d0 = dotted(n.func.value) or ''
                if f.owner_cls is not None and f.owner_cls.name == 'Ombott' and f.name in REQUEST_PATH_APP_METHODS \
                        and d0.startswith('self.') and d0.count('.') == 1 and d0.split('.')[1] not in ('request', 'response'):
                    out.append(dict(func=f, node=n, target=f'app-container:{d0}', kind=f'call:{n.func.attr}'))
    return out


def long_lived_raises(P, funcs=None):
    """`raise e` where e derives from a module-level / class-level / configuration-held instance rather than from a
    constructor call, an `except ... as e` binding or a copy made in this call.
    returns list of dict(func, node, origin, fresh)"""
    out = []
    for f in (funcs if funcs is not None else P.all_funcs()):
        if isinstance(f.node, ast.Lambda):
            continue
        g, rd = f.cfg, f.rd
        for n in walk_shallow(f.node):
            if not isinstance(n, ast.Raise) or n.exc is None:
                continue
            ns = g.node_of_stmt(n)
            if not ns:
                continue
            origin = _exc_origin(P, f, n.exc, ns[0], set())
            out.append(dict(func=f, node=n, origin=origin))
    return out


FRESHENERS = {'with_traceback', 'copy'}


def _exc_origin(P, f, e, at, seen, depth=0):
    """returns a set of origin tags: 'ctor', 'caught', 'param', 'copy', 'reset-tb', 'shared:<what>', 'call:<name>', 'unknown'"""
    rd = f.rd
    if isinstance(e, ast.Call):
        d = dotted(e.func) or ''
        if isinstance(e.func, ast.Attribute) and e.func.attr == 'with_traceback' and e.args and isinstance(e.args[0], ast.Constant) \
                and e.args[0].value is None:
            inner = _exc_origin(P, f, e.func.value, at, seen, depth + 1)
            return {('reset-tb:' + o) if o.startswith('shared') else o for o in inner}
        if d in ('copy.copy', 'copy.deepcopy') or (isinstance(e.func, ast.Attribute) and e.func.attr == 'copy'):
            return {'copy'}
        r = P.resolve_name(f.module, d) if d else None
        if r and r[0] == 'class':
            return {'ctor'}
        if d and d[:1].isupper():
            return {'ctor'}
        if d.startswith('self.') or (r and r[0] == 'func'):
            return {'call:' + d}
        return {'call:' + (d or short(e, 30))}
    if isinstance(e, ast.Name):
        if rd.is_local(e.id) or e.id in f.params:
            tags = set()
            for d in rd.at(at, e.id):
                key = id(d)
                if key in seen:
                    continue
                seen.add(key)
                if d.kind == 'except':
                    tags.add('caught')
                elif d.kind == 'param':
                    tags.add('param')
                elif d.value is not None and d.kind in ('assign', 'walrus'):
                    tags |= _exc_origin(P, f, d.value, d.node, seen, depth + 1)
                else:
                    tags.add('unknown')
            return tags or {'unknown'}
        pf = f.parent
        while pf is not None:
            if pf.rd.is_local(e.id):
                return {'shared:cell:' + e.id}
            pf = pf.parent
        k = module_level_kind(f.module, e.id)
        if k == 'instance':
            return {f'shared:global:{f.module.name}.{e.id}'}
        r = P.resolve_name(f.module, e.id)
        if r and r[0] == 'class':
            return {'ctor'}
        return {'unknown'}
    if isinstance(e, ast.Attribute):
        d = dotted(e) or ''
        if d.endswith('.error') or d.startswith(('self.', 'markup.')):
            return {'stored:' + d}
        return {'unknown'}
    if isinstance(e, ast.Call) is False and isinstance(e, ast.Subscript):
        return {'shared:item:' + short(e, 40)}
    if isinstance(e, ast.IfExp):
        return _exc_origin(P, f, e.body, at, seen, depth + 1) | _exc_origin(P, f, e.orelse, at, seen, depth + 1)
    return {'unknown'}


def mapping_lookup_origin(P, f, e, at):
    """True when e derives from `<mapping>.get(...)` / `<mapping>[...]` of a configuration-level mapping"""
    cl = f.rd.closure_nodes(e, at, follow_mut=False)
    return [x for x in cl if (isinstance(x, ast.Call) and call_attr(x) == 'get') or isinstance(x, ast.Subscript)]


# --------------------------------------------------------------------------- objects shared by every thread of one application
def _is_threadlocal_class(c):
    return any((dotted(d.func) if isinstance(d, ast.Call) else dotted(d)) in ('ts_props',) or
               (isinstance(d, ast.Call) and dotted(d.func) == 'ts_props') for d in getattr(c.node, 'decorator_list', []))


def shared_classes(P, root='ombott.ombott:Ombott'):
    """classes whose instances hang off the application object (built in __init__ of a shared class and kept in an attribute), without the
    per-thread ones (@ts_props).  Returns (classes, {class fq: attributes that hold per-thread objects})"""
    rootc = P.classes.get(root)
    if rootc is None:
        return [], {}
    out, tl = [rootc], {}
    i = 0
    while i < len(out):
        c = out[i]
        i += 1
        for k in P.mro(c):
            init = k.methods.get('__init__')
            if init is None:
                continue
            for st in walk_shallow(init.node):
                if isinstance(st, ast.Assign) and isinstance(st.value, ast.Call):
                    r = P.resolve_name(init.module, dotted(st.value.func) or '')
                    if r and r[0] == 'class':
                        for t in st.targets:
                            ts = t.elts if isinstance(t, ast.Tuple) else [t]
                            for t_ in ts:
                                if isinstance(t_, ast.Attribute) and isinstance(t_.value, ast.Name) and t_.value.id == 'self':
                                    if _is_threadlocal_class(r[1]) or any(_is_threadlocal_class(b) for b in P.mro(r[1])):
                                        tl.setdefault(c.fq, set()).add(t_.attr)
                                    elif r[1] not in out:
                                        out.append(r[1])
        # what a shared object of the router package builds in any of its methods and keeps (routes, per-method records) lives as long as it does
        if c.module.name.startswith('ombott.router'):
            for m_ in c.methods.values():
                if isinstance(m_.node, ast.Lambda):
                    continue
                for x in walk_shallow(m_.node):
                    if isinstance(x, ast.Call):
                        r = P.resolve_name(m_.module, dotted(x.func) or '')
                        if r and r[0] == 'class' and r[1].module.name.startswith('ombott.router') and r[1] not in out \
                                and not any(b.name in ('Exception', 'BaseException') or b.name.endswith('Error') for b in P.mro(r[1])):
                            out.append(r[1])
    return out, tl


def request_path_funcs(P, entry='ombott.ombott:Ombott.wsgi', config_time=()):
    """over-approximate call reachability by simple name from the WSGI entry point (every package function of that name is a callee)"""
    by_name = {}
    for f in P.all_funcs():
        if isinstance(f.node, ast.Lambda):
            continue
        by_name.setdefault(f.name, []).append(f)
    start = P.funcs.get(entry)
    if start is None:
        return []
    seen, todo = {start.fq: start}, [start]
    while todo:
        f = todo.pop()
        names = set()
        for n in walk_shallow(f.node):
            if isinstance(n, ast.Call):
                nm = n.func.attr if isinstance(n.func, ast.Attribute) else (n.func.id if isinstance(n.func, ast.Name) else None)
                if nm:
                    names.add(nm)
            elif isinstance(n, ast.Attribute) and isinstance(n.ctx, ast.Load):
                names.add(n.attr)          # property getters
            elif isinstance(n, ast.Subscript):
                names.add('__getitem__')
        for ch in P.all_funcs():
            if ch.parent is f and ch.fq not in seen and not isinstance(ch.node, ast.Lambda):
                seen[ch.fq] = ch
                todo.append(ch)
        for nm in names:
            if nm in config_time:
                continue
            for g_ in by_name.get(nm, []):
                if g_.fq not in seen:
                    seen[g_.fq] = g_
                    todo.append(g_)
    return list(seen.values())


def _alias_roots(f, e, at, depth=0):
    """what `e` may denote, as access paths from self: {'self.router', 'self.root[]', ...}; locals are followed through plain copies, attribute
    loads and element loads only (a value computed by a call is a new object)"""
    if depth > 6:
        return set()
    if isinstance(e, ast.Attribute):
        if isinstance(e.value, ast.Name) and e.value.id == 'self':
            return {'self.' + e.attr}
        return {r + '.' + e.attr for r in _alias_roots(f, e.value, at, depth + 1)}
    if isinstance(e, ast.Subscript):
        return {r + '[]' for r in _alias_roots(f, e.value, at, depth + 1)}
    if isinstance(e, ast.Name):
        if e.id == 'self':
            return {'self'}
        out = set()
        if f.rd.is_local(e.id):
            for d in f.rd.at(at, e.id):
                if d.kind in ('assign', 'walrus', 'ann') and d.value is not None and isinstance(d.value, (ast.Name, ast.Attribute, ast.Subscript)) and d.node is not at:
                    out |= _alias_roots(f, d.value, d.node, depth + 1)
        return out
    return set()


def shared_object_writes(P, config_time=()):
    """stores into the application object or an object reachable from it (router, routing tree, route tables) made by code that runs while a
    request is served.  One application object serves all threads: such a store is visible to every request in flight."""
    classes, tl = shared_classes(P)
    cset = {c.fq for c in classes}
    out = []
    for f in request_path_funcs(P, config_time=config_time):
        oc = f.owner_cls
        if oc is None or oc.fq not in cset or f.name in config_time or f.name in ('__init__', '__new__'):
            continue
        skip = tl.get(oc.fq, set())
        g = f.cfg

        def hit(expr, at):
            roots = _alias_roots(f, expr, at)
            return sorted(r for r in roots if r == 'self' or (r.startswith('self.') and r.split('.')[1].split('[')[0] not in skip))
        for n in walk_shallow(f.node):
            ns = g.node_of_stmt(n)
            if not ns:
                continue
            at = ns[0]
            if isinstance(n, (ast.Assign, ast.AugAssign, ast.AnnAssign)):
                targets = n.targets if isinstance(n, ast.Assign) else [n.target]
                flat = []
                for t in targets:
                    flat += list(t.elts) if isinstance(t, (ast.Tuple, ast.List)) else [t]
                for t in flat:
                    if isinstance(t, ast.Attribute):
                        for r in hit(t.value, at):
                            out.append(dict(func=f, node=n, target=f'app-object:{oc.name}:{r}.{t.attr}', kind='attr-assign'))
                    elif isinstance(t, ast.Subscript):
                        for r in hit(t.value, at):
                            if r != 'self':
                                out.append(dict(func=f, node=n, target=f'app-object:{oc.name}:{r}[...]', kind='item-assign'))
            elif isinstance(n, ast.Delete):
                for t in n.targets:
                    if isinstance(t, (ast.Subscript, ast.Attribute)):
                        for r in hit(t.value, at):
                            out.append(dict(func=f, node=n, target=f'app-object:{oc.name}:{r}', kind='del'))
            elif isinstance(n, ast.Call) and isinstance(n.func, ast.Attribute) and n.func.attr in MUTATORS:
                for r in hit(n.func.value, at):
                    if r != 'self':
                        out.append(dict(func=f, node=n, target=f'app-object:{oc.name}:{r}', kind=f'call:{n.func.attr}'))
    return out
