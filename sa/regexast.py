"""Syntax trees of the regular expressions the analysed code embeds (re._parser).

Only *literal* patterns found in the source are parsed; nothing from the analysed
package is executed.
"""
import ast
import re._parser as sre_parse
import re._constants as sre_c

from .astutil import dotted, const
from .rules import peval, CannotEval


def pattern_literal(node, env=None, hole='\x00HOLE\x00'):
    """literal value (str/bytes) of a pattern expression: constants, concatenations, f-strings
    (holes replaced by an opaque marker), conditional expressions -> list of alternatives"""
    if isinstance(node, ast.Constant) and isinstance(node.value, (str, bytes)):
        return [node.value]
    if isinstance(node, ast.JoinedStr):
        out = ['']
        for v in node.values:
            if isinstance(v, ast.Constant):
                out = [o + str(v.value) for o in out]
            else:
                try:
                    val = peval(v.value, env or {})
                    out = [o + str(val) for o in out]
                except CannotEval:
                    out = [o + hole for o in out]
        return out
    if isinstance(node, ast.IfExp):
        return (pattern_literal(node.body, env, hole) or []) + (pattern_literal(node.orelse, env, hole) or [])
    if isinstance(node, ast.BinOp) and isinstance(node.op, ast.Add):
        l, r = pattern_literal(node.left, env, hole), pattern_literal(node.right, env, hole)
        if l and r:
            return [a + b for a in l for b in r]
    if isinstance(node, ast.Name) and env and node.id in env:
        v = env[node.id]
        if isinstance(v, (str, bytes)):
            return [v]
        if isinstance(v, ast.AST):
            return pattern_literal(v, env, hole)
    return None


def parse(pattern):
    try:
        return sre_parse.parse(pattern)
    except Exception:
        return None


def compiled_pattern_arg(value_node):
    """for `re.compile(<pat>, ...)` return <pat> node"""
    if isinstance(value_node, ast.Call) and dotted(value_node.func) in ('re.compile', 'compile') and value_node.args:
        return value_node.args[0]
    return None


def _items(tree):
    return list(tree.data) if hasattr(tree, 'data') else list(tree)


def walk(tree):
    """yield every (op, arg) item in a parsed pattern, recursively"""
    for (op, av) in _items(tree):
        yield (op, av)
        if op in (sre_c.MAX_REPEAT, sre_c.MIN_REPEAT) or str(op) == 'POSSESSIVE_REPEAT':
            yield from walk(av[2])
        elif op is sre_c.SUBPATTERN:
            yield from walk(av[3])
        elif op is sre_c.BRANCH:
            for alt in av[1]:
                yield from walk(alt)
        elif op in (sre_c.ASSERT, sre_c.ASSERT_NOT):
            yield from walk(av[1])
        elif str(op) == 'ATOMIC_GROUP':
            yield from walk(av)
        elif op is sre_c.GROUPREF_EXISTS:
            yield from walk(av[1])
            if av[2]:
                yield from walk(av[2])


def has_lookaround(tree):
    return any(op in (sre_c.ASSERT, sre_c.ASSERT_NOT) for (op, _) in walk(tree))


def class_chars(items):
    """set of code points matched by the items of an IN node (None if it contains categories/negation)"""
    out = set()
    for (op, av) in items:
        if op is sre_c.LITERAL:
            out.add(av)
        elif op is sre_c.RANGE:
            out.update(range(av[0], av[1] + 1))
        else:
            return None
    return out


def simple_class_repeat(tree):
    """If the pattern is  ^? [class]{1,} $?  return (charset, anchored_start, anchored_end) else None"""
    items = _items(tree)
    start = end = False
    if items and items[0] == (sre_c.AT, sre_c.AT_BEGINNING) or (items and items[0][0] is sre_c.AT and items[0][1] in (sre_c.AT_BEGINNING, sre_c.AT_BEGINNING_STRING)):
        start = True
        items = items[1:]
    if items and items[-1][0] is sre_c.AT and items[-1][1] in (sre_c.AT_END, sre_c.AT_END_STRING):
        end = True
        items = items[:-1]
    if len(items) != 1:
        return None
    op, av = items[0]
    if op not in (sre_c.MAX_REPEAT, sre_c.MIN_REPEAT):
        return None
    lo, hi, sub = av
    sub = _items(sub)
    if lo != 1 or hi != sre_c.MAXREPEAT or len(sub) != 1:
        return None
    if sub[0][0] is sre_c.IN:
        cs = class_chars(sub[0][1])
    elif sub[0][0] is sre_c.LITERAL:
        cs = {sub[0][1]}
    else:
        cs = None
    if cs is None:
        return None
    return cs, start, end


# ------------------------------------------------------------------ ambiguity under repetition (catastrophic backtracking)
def _first_set(items):
    """(negated, chars) of the characters an item sequence can start with; None = cannot tell / can be empty"""
    items = list(items)
    if not items:
        return None
    op, av = items[0]
    if op is sre_c.LITERAL:
        return (False, {av})
    if op is sre_c.NOT_LITERAL:
        return (True, {av})
    if op is sre_c.ANY:
        return (True, set())
    if op is sre_c.IN:
        neg = any(o is sre_c.NEGATE for (o, a) in av)
        chars = set()
        for (o, a) in av:
            if o is sre_c.LITERAL:
                chars.add(a)
            elif o is sre_c.RANGE:
                chars |= set(range(a[0], a[1] + 1))
            elif o is sre_c.CATEGORY:
                return (True, set())          # \w \d \s ...: treat as "almost anything"
        return (neg, chars)
    if op is sre_c.SUBPATTERN:
        return _first_set(_items(av[3]))
    if op is sre_c.BRANCH:
        out = None
        for alt in av[1]:
            f = _first_set(_items(alt))
            if f is None:
                return None
            out = f if out is None else _union(out, f)
        return out
    if op in (sre_c.MAX_REPEAT, sre_c.MIN_REPEAT):
        return _first_set(_items(av[2])) if av[0] >= 1 else None
    return None


def _union(a, b):
    (na, ca), (nb, cb) = a, b
    if not na and not nb:
        return (False, ca | cb)
    if na and nb:
        return (True, ca & cb)
    if na:
        return (True, ca - cb)
    return (True, cb - ca)


def _intersects(a, b):
    (na, ca), (nb, cb) = a, b
    if not na and not nb:
        return bool(ca & cb)
    if na and nb:
        return True
    if na:
        return bool(cb - ca)
    return bool(ca - cb)


def _width(items):
    lo = hi = 0
    for (op, av) in items:
        if op in (sre_c.LITERAL, sre_c.NOT_LITERAL, sre_c.ANY, sre_c.IN):
            lo, hi = lo + 1, hi + 1
        elif op is sre_c.SUBPATTERN:
            a, b = _width(_items(av[3]))
            lo, hi = lo + a, hi + b
        elif op is sre_c.BRANCH:
            ws = [_width(_items(alt)) for alt in av[1]]
            lo, hi = lo + min(w[0] for w in ws), hi + max(w[1] for w in ws)
        elif op in (sre_c.MAX_REPEAT, sre_c.MIN_REPEAT):
            a, b = _width(_items(av[2]))
            lo, hi = lo + a * av[0], hi + (b * av[1] if av[1] < 1000 else 10 ** 6)
        else:
            pass
    return lo, hi


def ambiguous_repeats(tree):
    """Repetitions `( A | B )*` (unbounded) whose alternatives can start with the same character but consume different numbers of characters:
    a run of that character can be split in exponentially many ways, and all of them are tried when the rest of the pattern fails
    (catastrophic backtracking).  Returns a list of descriptions."""
    out = []
    for (op, av) in walk(tree):
        if op not in (sre_c.MAX_REPEAT, sre_c.MIN_REPEAT) or av[1] < 1000:
            continue
        inner = _items(av[2])
        while len(inner) == 1 and inner[0][0] is sre_c.SUBPATTERN:
            inner = _items(inner[0][1][3])
        if len(inner) == 1 and inner[0][0] is sre_c.BRANCH:
            alts = [_items(a) for a in inner[0][1][1]]
            for i in range(len(alts)):
                for j in range(i + 1, len(alts)):
                    fi, fj = _first_set(alts[i]), _first_set(alts[j])
                    if fi is None or fj is None or not _intersects(fi, fj):
                        continue
                    if _width(alts[i]) != _width(alts[j]) or _width(alts[i])[0] != _width(alts[i])[1]:
                        out.append(f'alternatives #{i + 1} and #{j + 1} of a repeated group overlap')
        # nested unbounded repeats: (x+)+
        for (op2, av2) in inner:
            if op2 in (sre_c.MAX_REPEAT, sre_c.MIN_REPEAT) and av2[1] >= 1000 and len(inner) == 1:
                out.append('an unbounded repetition directly inside an unbounded repetition')
    return out


def optional_groups(tree):
    """numbers of the capturing groups that can be None after a successful match (inside an optional / zero-or-more repeat or a branch)"""
    out = set()

    def rec(items, optional):
        for (op, av) in items:
            name = str(op)
            if name == 'SUBPATTERN':
                gid, sub = av[0], av[-1]
                if gid is not None and optional:
                    out.add(gid)
                rec(list(sub), optional)
            elif name in ('MAX_REPEAT', 'MIN_REPEAT', 'POSSESSIVE_REPEAT'):
                lo, hi, sub = av
                rec(list(sub), optional or lo == 0)
            elif name == 'BRANCH':
                for alt in av[1]:
                    rec(list(alt), True)
            elif name in ('ASSERT', 'ASSERT_NOT'):
                rec(list(av[1]), optional)
            elif name == 'GROUPREF_EXISTS':
                for alt in av[1:]:
                    if alt is not None:
                        rec(list(alt), True)
            elif name == 'ATOMIC_GROUP':
                rec(list(av), optional)
    rec(list(tree), False)
    return out
