"""Definite assignment: which local names are bound on *every* path to a CFG node.

A read of a local name that is not definitely assigned can raise UnboundLocalError (e.g. a loop target read after a loop
that may run zero times).  Forward must-analysis on the statement CFG: IN[n] = intersection of what the predecessors
pass on; a node passes on IN + the names it binds along its normal out-edges, and only IN along its exception edge
(the binding did not happen) and, for a `for` node, along its `done` edge (the target is bound per iteration only).
"""
import ast

from .astutil import walk_shallow
from .dataflow import defs_of_node


def _binds(n):
    return {d.name for d in defs_of_node(n) if d.kind != 'del'}


def _dels(n):
    return {d.name for d in defs_of_node(n) if d.kind == 'del'}


class DefiniteAssignment:
    def __init__(self, func, noreturn_node=None):
        self.f = func
        g = func.cfg
        rd = func.rd
        self.locals = set(rd.locals)
        params = set(func.params)
        full = set(self.locals) | params
        reach = g.reachable()
        IN = {n: set(full) for n in g.nodes}
        IN[g.entry] = set(params)
        binds = {n: _binds(n) for n in g.nodes}
        dels = {n: _dels(n) for n in g.nodes}

        dead = {n for n in g.nodes if noreturn_node is not None and noreturn_node(n)}

        def out_along(n, lab):
            if lab == 'exc':
                return IN[n]
            if n in dead:
                return full          # control never continues after a call that always raises
            if n.kind == 'for' and lab == 'done':
                return IN[n]
            return (IN[n] | binds[n]) - dels[n]
        changed = True
        order = [n for n in g.nodes if n in reach]
        while changed:
            changed = False
            for n in order:
                if n is g.entry:
                    continue
                preds = [(p, lab) for (p, lab) in n.pred if p in reach]
                if not preds:
                    continue
                new = None
                for (p, lab) in preds:
                    o = out_along(p, lab)
                    new = set(o) if new is None else (new & o)
                if new != IN[n]:
                    IN[n] = new
                    changed = True
        self.IN = IN
        self.reach = reach

    def maybe_unbound_reads(self):
        """[(cfg node, Name node)] loads of local names not bound on every path to the node"""
        out = []
        g = self.f.cfg
        declared = set()
        for x in ast.walk(self.f.node):
            if isinstance(x, (ast.Global, ast.Nonlocal)):
                declared |= set(x.names)
        for n in g.nodes:
            if n not in self.reach or n.ast is None or n.kind not in ('stmt', 'test', 'for', 'with'):
                continue
            if n.kind == 'for':
                roots = [n.ast.iter]
            elif n.kind == 'with':
                roots = [i.context_expr for i in n.ast.items]
            elif isinstance(n.ast, (ast.FunctionDef, ast.AsyncFunctionDef, ast.ClassDef)):
                continue
            else:
                roots = [n.ast]
            bound_here = set()
            for r in roots:
                for x in _loads_in_order(r):
                    if isinstance(x, ast.Name) and isinstance(x.ctx, ast.Load) and x.id in self.locals and x.id not in declared \
                            and x.id not in self.f.params and x.id not in self.IN[n] and x.id not in bound_here:
                        out.append((n, x))
        return out


def _loads_in_order(root):
    """Name loads evaluated by the statement/expression itself (not inside nested defs / lambdas; comprehension-local
    targets are skipped)"""
    comp_targets = set()
    for x in ast.walk(root):
        if isinstance(x, ast.comprehension):
            for t in ast.walk(x.target):
                if isinstance(t, ast.Name):
                    comp_targets.add(t.id)
    for x in walk_shallow(root):
        if isinstance(x, ast.Name) and x.id in comp_targets:
            continue
        yield x
