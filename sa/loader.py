"""Parse the package under analysis and build module / class / function tables.

Nothing under the analysed root is imported or executed: files are read and parsed
with `ast` only.
"""
import ast
import hashlib
import os

from .astutil import set_parents, FUNC_NODES, dotted, target_names


class AnalysisError(Exception):
    """The analysis itself cannot proceed (anchor vanished, parse failure, floor not
    met).  Never a verdict about the analysed code."""


class Module:
    def __init__(self, name, path, relpath, source, tree):
        self.name = name
        self.path = path
        self.relpath = relpath
        self.source = source
        self.tree = tree
        self.imports = {}      # local name -> 'pkg.mod' or 'pkg.mod:attr'
        self.functions = {}    # qual (within module) -> Func
        self.classes = {}      # qual (within module) -> Class
        self.assigns = {}      # module-level name -> list of value nodes (in order)

    def __repr__(self):
        return f'<Module {self.name}>'


class Func:
    def __init__(self, module, qual, node, cls, parent):
        self.module = module
        self.qual = qual           # 'Class.meth' / 'f.inner'
        self.node = node
        self.cls = cls
        self.parent = parent       # enclosing Func or None
        self.name = getattr(node, 'name', '<lambda>')
        self._cfg = None
        self._rd = None

    @property
    def fq(self):
        return f'{self.module.name}:{self.qual}'

    @property
    def params(self):
        a = self.node.args
        out = [x.arg for x in a.posonlyargs + a.args]
        if a.vararg:
            out.append(a.vararg.arg)
        out += [x.arg for x in a.kwonlyargs]
        if a.kwarg:
            out.append(a.kwarg.arg)
        return out

    @property
    def body(self):
        return self.node.body if not isinstance(self.node, ast.Lambda) else [self.node.body]

    @property
    def cfg(self):
        if self._cfg is None:
            from .cfg import build_cfg
            self._cfg = build_cfg(self)
        return self._cfg

    @property
    def rd(self):
        if self._rd is None:
            from .dataflow import ReachingDefs
            self._rd = ReachingDefs(self)
        return self._rd

    @property
    def owner_cls(self):
        f = self
        while f is not None:
            if f.cls is not None:
                return f.cls
            f = f.parent
        return None

    def site(self, node=None):
        node = node if node is not None else self.node
        # a definition that was found in another module than its reference one keeps the file it really stands in
        f, rel = self, None
        while f is not None and rel is None:
            rel = getattr(f.node, '_found_in', None)
            f = f.parent
        return f'{rel or self.module.relpath}:{getattr(node, "lineno", 0)}'

    def __repr__(self):
        return f'<Func {self.fq}>'


class Class:
    def __init__(self, module, qual, node, parent_func=None):
        self.module = module
        self.qual = qual
        self.node = node
        self.name = node.name
        self.methods = {}          # name -> Func
        self.attrs = {}            # class-level name -> value node (last assignment)
        self.base_exprs = [dotted(b) or ast.unparse(b) for b in node.bases]
        self.parent_func = parent_func

    @property
    def fq(self):
        return f'{self.module.name}:{self.qual}'

    def __repr__(self):
        return f'<Class {self.fq}>'


class Project:
    PKG = 'ombott'

    def __init__(self, root='/repo'):
        self.root = os.path.abspath(root)
        self.pkg_dir = os.path.join(self.root, self.PKG)
        if not os.path.isdir(self.pkg_dir):
            raise AnalysisError(f'package directory {self.pkg_dir} not found')
        self.modules = {}
        self.funcs = {}     # fq -> Func
        self.classes = {}   # fq -> Class
        self._load()

    # ------------------------------------------------------------------ loading
    def _load(self):
        h = hashlib.sha256()
        for dirpath, dirnames, filenames in os.walk(self.pkg_dir):
            dirnames[:] = sorted(d for d in dirnames if d != '__pycache__')
            for fn in sorted(filenames):
                if not fn.endswith('.py'):
                    continue
                path = os.path.join(dirpath, fn)
                rel = os.path.relpath(path, self.root)
                with open(path, 'rb') as f:
                    raw = f.read()
                h.update(rel.encode() + b'\0' + raw)
                try:
                    source = raw.decode('utf8')
                    tree = ast.parse(source, filename=rel)
                except (SyntaxError, UnicodeDecodeError) as e:
                    raise AnalysisError(f'cannot parse {rel}: {e}')
                from .normalize import normalize
                tree = normalize(tree)
                modname = rel[:-3].replace(os.sep, '.')
                if modname.endswith('.__init__'):
                    modname = modname[: -len('.__init__')]
                m = Module(modname, path, rel, source, tree)
                m.is_pkg = fn == '__init__.py'
                self.modules[modname] = m
        self.digest = h.hexdigest()
        # calls of helpers that are not part of the reference layout are expanded in place (see sa/inline.py)
        from .inline import Inliner
        from .normalize import normalize
        self.inline_log = []
        if not os.environ.get('SA_NO_INLINE'):
            from .inline import undo_renames, undo_moves
            undo_moves(self.modules, log=self.inline_log)
            from .inline import undo_class_splits, undo_state_objects, undo_callable_objects
            undo_class_splits(self.modules, log=self.inline_log)
            undo_state_objects(self.modules, log=self.inline_log)
            undo_callable_objects(self.modules, log=self.inline_log)
            from .inline import undo_function_objects, undo_partial_closures
            undo_function_objects(self.modules, log=self.inline_log)
            undo_partial_closures(self.modules, log=self.inline_log)
            from .inline import undo_method_aliases
            undo_method_aliases(self.modules, log=self.inline_log)
            undo_renames(self.modules, log=self.inline_log)
            from .inline import undo_attr_renames
            undo_attr_renames(self.modules, log=self.inline_log)
            from .inline import undo_signature_changes
            undo_signature_changes(self.modules, log=self.inline_log)
            from .inline import lower_context_managers, fuse_phase_loops, lower_namedtuples, lower_memo_tables
            if lower_context_managers(self.modules, log=self.inline_log) | fuse_phase_loops(self.modules, log=self.inline_log) | lower_namedtuples(self.modules, log=self.inline_log) \
                    | lower_memo_tables(self.modules, log=self.inline_log):
                for m in self.modules.values():
                    m.tree = normalize(m.tree)
            if Inliner(self.modules, log=self.inline_log).run():
                for m in self.modules.values():
                    m.tree = normalize(m.tree)
            # a private attribute renamed *and* partly moved into a new helper has its reference usage signature only once the helper is expanded
            if undo_attr_renames(self.modules, log=self.inline_log, local_only=True):
                for m in self.modules.values():
                    m.tree = normalize(m.tree)
            from .inline import lower_local_raises, thread_sentinel_tests
            if lower_local_raises(self.modules, log=self.inline_log) | thread_sentinel_tests(self.modules, log=self.inline_log):
                for m in self.modules.values():
                    m.tree = normalize(m.tree)
        for m in self.modules.values():
            set_parents(m.tree)
        for m in self.modules.values():
            self._index_module(m)
        # a module-level constant imported from another module of the package is a constant here too
        for _ in range(2):
            for m in self.modules.values():
                for local, full in list(m.imports.items()):
                    mod, sep, name = full.partition(':')
                    src_m = self.modules.get(mod) if sep else None
                    if src_m is not None and local not in m.assigns and len(src_m.assigns.get(name, ())) == 1 \
                            and name not in src_m.functions and name not in src_m.classes:
                        m.assigns[local] = list(src_m.assigns[name])

    def _resolve_relative(self, m, level, module):
        if level == 0:
            return module
        base = m.name.split('.')
        if not m.is_pkg:
            base = base[:-1]
        if level > 1:
            base = base[: len(base) - (level - 1)]
        return '.'.join(base + ([module] if module else []))

    def _index_module(self, m):
        for node in ast.walk(m.tree):
            if isinstance(node, ast.Import):
                for a in node.names:
                    m.imports[a.asname or a.name.split('.')[0]] = a.name if a.asname else a.name.split('.')[0]
            elif isinstance(node, ast.ImportFrom):
                mod = self._resolve_relative(m, node.level, node.module)
                for a in node.names:
                    local = a.asname or a.name
                    full = f'{mod}.{a.name}' if mod else a.name
                    if full in self.modules or self._is_module_path(full):
                        m.imports[local] = full
                    else:
                        m.imports[local] = f'{mod}:{a.name}'
        for st in m.tree.body:
            if isinstance(st, ast.Assign):
                for t in st.targets:
                    for n in target_names(t):
                        m.assigns.setdefault(n, []).append(st.value)
            elif isinstance(st, ast.AnnAssign) and isinstance(st.target, ast.Name) and st.value is not None:
                m.assigns.setdefault(st.target.id, []).append(st.value)
        self._index_scope(m, m.tree.body, prefix='', cls=None, parent=None)

    def _is_module_path(self, full):
        p = os.path.join(self.root, *full.split('.'))
        return os.path.isfile(p + '.py') or os.path.isdir(p)

    def _index_scope(self, m, body, prefix, cls, parent):
        """index defs that appear (at any statement nesting) in this scope"""
        for node in self._scope_defs(body):
            if isinstance(node, (ast.FunctionDef, ast.AsyncFunctionDef)):
                qual = prefix + node.name
                f = Func(m, qual, node, cls, parent)
                # keep first definition under plain name; later same-named get suffix
                key = qual
                k = 2
                while key in m.functions:
                    key = f'{qual}#{k}'
                    k += 1
                f.qual = key
                m.functions[key] = f
                self.funcs[f.fq] = f
                if cls is not None:
                    cls.methods.setdefault(node.name, f)
                self._index_scope(m, node.body, key + '.', None, f)
                self._index_lambdas(m, node, key + '.', f)
            elif isinstance(node, ast.ClassDef):
                qual = prefix + node.name
                c = Class(m, qual, node, parent)
                m.classes[qual] = c
                self.classes[c.fq] = c
                for st in node.body:
                    if isinstance(st, ast.Assign):
                        for t in st.targets:
                            for n in target_names(t):
                                c.attrs[n] = st.value
                    elif isinstance(st, ast.AnnAssign) and isinstance(st.target, ast.Name) and st.value is not None:
                        c.attrs[st.target.id] = st.value
                self._index_scope(m, node.body, qual + '.', c, parent)
        if parent is None and cls is None and prefix == '':
            self._index_lambdas(m, m.tree, '', None, module_level=True)

    def _scope_defs(self, body):
        """function/class defs directly in this scope (through if/try/with/for nesting)"""
        stack = list(reversed(body))
        while stack:
            n = stack.pop()
            if isinstance(n, (ast.FunctionDef, ast.AsyncFunctionDef, ast.ClassDef)):
                yield n
                continue
            for field in ('body', 'orelse', 'finalbody', 'handlers'):
                sub = getattr(n, field, None)
                if isinstance(sub, list):
                    stack.extend(reversed([x for x in sub if isinstance(x, ast.AST)]))

    def _index_lambdas(self, m, scope_node, prefix, parent, module_level=False):
        """lambdas belonging to this scope (not nested defs' lambdas)"""
        from .astutil import walk_shallow
        i = 0
        roots = scope_node.body if hasattr(scope_node, 'body') and isinstance(scope_node.body, list) else [scope_node]
        for r in roots:
            if isinstance(r, (ast.FunctionDef, ast.AsyncFunctionDef)) and not module_level:
                continue
            for n in self._walk_for_lambdas(r):
                i += 1
                key = f'{prefix}<lambda{i}>'
                f = Func(m, key, n, None, parent)
                m.functions[key] = f
                self.funcs[f.fq] = f

    def _walk_for_lambdas(self, root):
        stack = [root]
        while stack:
            n = stack.pop()
            if isinstance(n, ast.Lambda):
                yield n
                continue   # nested lambdas inside a lambda are not indexed separately
            if isinstance(n, (ast.FunctionDef, ast.AsyncFunctionDef)) and n is not root:
                # defaults/decorators belong to the enclosing scope
                stack.extend(n.decorator_list)
                stack.extend(n.args.defaults)
                stack.extend([d for d in n.args.kw_defaults if d is not None])
                continue
            stack.extend(ast.iter_child_nodes(n))

    # ------------------------------------------------------------------ lookup
    def module(self, name):
        m = self.modules.get(name)
        if m is None:
            raise AnalysisError(f'anchor module {name} not found')
        return m

    def func(self, fq):
        f = self.funcs.get(fq)
        if f is None:
            # a private helper that was merged into its only caller: the code the rules look for now lives there
            from .inline import pinned_callers
            cs = pinned_callers(fq)
            if len(cs) == 1 and cs[0] in self.funcs and fq.rpartition('.')[2].rpartition(':')[2].startswith('_'):
                self.inline_log.append(f'{fq} is gone; its only caller {cs[0]} of the reference layout is analysed in its place')
                return self.funcs[cs[0]]
            raise AnalysisError(f'anchor function {fq} not found')
        return f

    def cls(self, fq):
        c = self.classes.get(fq)
        if c is None:
            raise AnalysisError(f'anchor class {fq} not found')
        return c

    def maybe_func(self, fq):
        return self.funcs.get(fq)

    def func_for_node(self, node):
        for f in self.funcs.values():
            if f.node is node:
                return f
        return None

    def all_funcs(self):
        return list(self.funcs.values())

    # class hierarchy ------------------------------------------------------
    def resolve_name(self, m, name):
        """resolve a dotted name used in module m to ('class', Class) / ('func', Func) /
        ('module', Module) / ('ext', 'json.loads') / None"""
        head, _, rest = name.partition('.')
        if head in m.classes and not rest:
            return ('class', m.classes[head])
        if head in m.functions and not rest:
            return ('func', m.functions[head])
        if head in m.classes and rest:
            c = m.classes[head]
            if rest in c.methods:
                return ('func', c.methods[rest])
            if rest in c.attrs:
                return ('classattr', (c, rest))
            return None
        tgt = m.imports.get(head)
        if tgt is None:
            return None
        if ':' in tgt:
            modname, attr = tgt.split(':')
            mod = self.modules.get(modname)
            if mod is None:
                return ('ext', f'{modname}.{attr}' + (f'.{rest}' if rest else ''))
            # re-exported names: follow one level of import in the target module
            full = attr + (f'.{rest}' if rest else '')
            r = self.resolve_name(mod, full)
            return r
        mod = self.modules.get(tgt)
        if mod is None:
            return ('ext', tgt + (f'.{rest}' if rest else ''))
        if not rest:
            return ('module', mod)
        return self.resolve_name(mod, rest) or self._resolve_in_module(mod, rest)

    def _resolve_in_module(self, mod, rest):
        return None

    def class_bases(self, c):
        out = []
        for b in c.base_exprs:
            r = self.resolve_name(c.module, b)
            if r and r[0] == 'class':
                out.append(r[1])
        return out

    def mro(self, c):
        """linearised (left-to-right DFS, first occurrence) list of package classes incl. c"""
        out = []

        def visit(k):
            if k in out:
                return
            out.append(k)
            for b in self.class_bases(k):
                visit(b)
        visit(c)
        return out

    def ext_bases(self, c):
        """names of non-package bases over the whole hierarchy (e.g. 'Exception')"""
        out = []
        for k in self.mro(c):
            for b in k.base_exprs:
                r = self.resolve_name(k.module, b)
                if not r or r[0] != 'class':
                    out.append(b)
        return out

    def find_method(self, c, name):
        for k in self.mro(c):
            if name in k.methods:
                return k.methods[name]
        return None

    def is_subclass(self, c, other):
        return other in self.mro(c)
