"""Small AST helpers shared by every rule.  Pure stdlib."""
import ast

FUNC_NODES = (ast.FunctionDef, ast.AsyncFunctionDef, ast.Lambda)
SCOPE_NODES = FUNC_NODES + (ast.ClassDef,)


def set_parents(tree):
    tree._p = None
    for node in ast.walk(tree):
        for ch in ast.iter_child_nodes(node):
            ch._p = node
    return tree


def parents(node):
    p = getattr(node, '_p', None)
    while p is not None:
        yield p
        p = getattr(p, '_p', None)


def enclosing(node, types):
    for p in parents(node):
        if isinstance(p, types):
            return p
    return None


def dotted(node):
    """'a.b.c' for Name/Attribute chains, else None."""
    parts = []
    while isinstance(node, ast.Attribute):
        parts.append(node.attr)
        node = node.value
    if isinstance(node, ast.Name):
        parts.append(node.id)
        return '.'.join(reversed(parts))
    return None


def src(node):
    """Normalised source text (layout/quote independent)."""
    if node is None:
        return ''
    try:
        return ast.unparse(node)
    except Exception:  # pragma: no cover
        return ast.dump(node)


def short(node, n=110):
    s = ' '.join(src(node).split())
    return s if len(s) <= n else s[: n - 3] + '...'


def walk_shallow(node, include_self=True):
    """Walk the node but do not descend into nested function/class/lambda bodies
    (their *decorators/defaults* are not visited either)."""
    if include_self:
        yield node
    stack = list(reversed(list(ast.iter_child_nodes(node))))
    while stack:
        n = stack.pop()
        yield n
        if isinstance(n, SCOPE_NODES):
            continue
        stack.extend(reversed(list(ast.iter_child_nodes(n))))


def walk_expr(node):
    """Walk an expression; descends into lambdas/comprehensions too (they are expressions)."""
    return ast.walk(node)


def calls_in(node, shallow=True):
    it = walk_shallow(node) if shallow else ast.walk(node)
    return [n for n in it if isinstance(n, ast.Call)]


def call_name(call):
    """dotted name of the callee or None; for method calls on non-name receivers
    returns '?.attr'."""
    f = call.func
    d = dotted(f)
    if d is not None:
        return d
    if isinstance(f, ast.Attribute):
        return '?.' + f.attr
    return None


def call_attr(call):
    """last component of the callee name ('read' for x.y.read(...), 'f' for f(...))"""
    f = call.func
    if isinstance(f, ast.Attribute):
        return f.attr
    if isinstance(f, ast.Name):
        return f.id
    return None


def const(node, default=None):
    if isinstance(node, ast.Constant):
        return node.value
    return default


def is_const(node, value):
    return isinstance(node, ast.Constant) and node.value == value and type(node.value) is type(value)


def is_none(node):
    return isinstance(node, ast.Constant) and node.value is None


def names_loaded(node):
    return {n.id for n in ast.walk(node) if isinstance(n, ast.Name) and isinstance(n.ctx, ast.Load)}


def names_in(node):
    return {n.id for n in ast.walk(node) if isinstance(n, ast.Name)}


def target_names(t):
    """names bound by an assignment target"""
    out = []
    if isinstance(t, ast.Name):
        out.append(t.id)
    elif isinstance(t, (ast.Tuple, ast.List)):
        for e in t.elts:
            out.extend(target_names(e))
    elif isinstance(t, ast.Starred):
        out.extend(target_names(t.value))
    return out


def stmt_of(node):
    """the innermost statement containing node"""
    n = node
    while n is not None and not isinstance(n, ast.stmt):
        n = getattr(n, '_p', None)
    return n


def func_of(node):
    return enclosing(node, FUNC_NODES)


def lineno(node):
    return getattr(node, 'lineno', 0) or 0


def compare_parts(node):
    """For a simple Compare `a OP b` return (a, OPclass, b) else None"""
    if isinstance(node, ast.Compare) and len(node.ops) == 1:
        return node.left, type(node.ops[0]), node.comparators[0]
    return None


def strip_not(test):
    """returns (inner, negated)"""
    neg = False
    while isinstance(test, ast.UnaryOp) and isinstance(test.op, ast.Not):
        test = test.operand
        neg = not neg
    return test, neg


def bool_operands(test, op):
    """flatten `a and b and c` (op=ast.And) into [a,b,c]; other nodes -> [test]"""
    if isinstance(test, ast.BoolOp) and isinstance(test.op, op):
        out = []
        for v in test.values:
            out.extend(bool_operands(v, op))
        return out
    return [test]


def same(a, b):
    return ast.dump(a) == ast.dump(b)
