"""Rule templates shared by the property modules (see DESIGN.md section 10)."""
import ast

from .astutil import (walk_shallow, dotted, call_attr, call_name, src, short, strip_not, compare_parts,
                      stmt_of, enclosing, is_const, names_loaded, same, const)
from .loader import AnalysisError


# --------------------------------------------------------------------------- finding things by role
def calls_to_name(func, name):
    """Call nodes `name(...)` in func (not nested defs)"""
    return [c for c in walk_shallow(func.node) if isinstance(c, ast.Call)
            and isinstance(c.func, ast.Name) and c.func.id == name]


def calls_with_attr(func, attr, recv=None):
    out = []
    for c in walk_shallow(func.node):
        if isinstance(c, ast.Call) and isinstance(c.func, ast.Attribute) and c.func.attr == attr:
            if recv is None or dotted(c.func.value) == recv:
                out.append(c)
    return out


def loops_of(node):
    """enclosing While/For statements of an AST node, innermost first (stops at function boundary)"""
    out = []
    p = getattr(node, '_p', None)
    while p is not None and not isinstance(p, (ast.FunctionDef, ast.AsyncFunctionDef, ast.Lambda)):
        if isinstance(p, (ast.While, ast.For)):
            out.append(p)
        p = getattr(p, '_p', None)
    return out


def in_body_of(node, loop):
    """node is inside loop.body (not orelse)"""
    for st in loop.body:
        for n in ast.walk(st):
            if n is node:
                return True
    return False


def loop_head(cfg, loop):
    """the CFG node that is the loop's head (test node of While / for node of For)"""
    if isinstance(loop, ast.While):
        ns = cfg.nodes_for(loop.test)
    else:
        ns = cfg.nodes_for(loop)
    if not ns:
        raise AnalysisError(f'loop at line {loop.lineno} has no CFG node')
    return ns[0]


def counter_of_while(loop):
    """for `while c > 0` / `while 0 < c` / `while c` return 'c' else None"""
    t = loop.test
    cp = compare_parts(t)
    if cp:
        a, op, b = cp
        if isinstance(a, ast.Name) and op in (ast.Gt,) and is_const(b, 0):
            return a.id
        if isinstance(b, ast.Name) and op in (ast.Lt,) and is_const(a, 0):
            return b.id
        if isinstance(a, ast.Name) and op in (ast.GtE,) and is_const(b, 1):
            return a.id
        if isinstance(a, ast.Name) and op in (ast.NotEq,) and is_const(b, 0):
            return None   # `!= 0` does not stop on overshoot: not accepted as a bound
    for x in (t.values if isinstance(t, ast.BoolOp) and isinstance(t.op, ast.And) else []):
        cp = compare_parts(x)
        if cp:
            a, op, b = cp
            if isinstance(a, ast.Name) and op is ast.Gt and is_const(b, 0):
                return a.id
            if isinstance(b, ast.Name) and op is ast.Lt and is_const(a, 0):
                return b.id
    if isinstance(t, ast.Constant) and t.value is True:
        # guard form: `while True: ...; if c <= 0 [or ...]: break; ...` with every yield of the loop after the guard
        for i, st in enumerate(loop.body):
            if isinstance(st, ast.If) and not st.orelse and len(st.body) == 1 and isinstance(st.body[0], ast.Break):
                ors = st.test.values if isinstance(st.test, ast.BoolOp) and isinstance(st.test.op, ast.Or) else [st.test]
                for x in ors:
                    cp = compare_parts(x)
                    name = None
                    if cp:
                        a, op, b = cp
                        if isinstance(a, ast.Name) and ((op is ast.LtE and is_const(b, 0)) or (op is ast.Lt and is_const(b, 1))):
                            name = a.id
                        if isinstance(b, ast.Name) and ((op is ast.GtE and is_const(a, 0)) or (op is ast.Gt and is_const(a, 1))):
                            name = b.id
                    if name is not None:
                        early = [y for s2 in loop.body[:i] for y in ast.walk(s2) if isinstance(y, (ast.Yield, ast.YieldFrom))]
                        if not early:
                            return name
    return None


def assigned_name_of_call(call):
    """`x = call(...)` -> 'x' (the call must be the whole RHS)"""
    st = stmt_of(call)
    if isinstance(st, ast.Assign) and st.value is call and len(st.targets) == 1 and isinstance(st.targets[0], ast.Name):
        return st.targets[0].id
    return None


def is_len_of(node, name):
    return (isinstance(node, ast.Call) and isinstance(node.func, ast.Name) and node.func.id == 'len'
            and len(node.args) == 1 and isinstance(node.args[0], ast.Name) and node.args[0].id == name)


def countup_of_while(loop):
    """`while limit > received` / `while received < limit` (two plain names): (limit, received), else None"""
    from .astutil import bool_operands
    for t in bool_operands(loop.test, ast.And):
        cp = compare_parts(t)
        if cp and isinstance(cp[0], ast.Name) and isinstance(cp[2], ast.Name):
            if cp[1] is ast.Gt:
                return cp[0].id, cp[2].id
            if cp[1] is ast.Lt:
                return cp[2].id, cp[0].id
    return None


def increments_of(loop, name):
    """statements in the loop body that raise `name`: list of (stmt, amount_expr)"""
    out = []
    for st in loop.body:
        for n in walk_shallow(st):
            if isinstance(n, ast.AugAssign) and isinstance(n.target, ast.Name) and n.target.id == name:
                out.append((n, n.value if isinstance(n.op, ast.Add) else None))
            elif isinstance(n, ast.Assign) and any(isinstance(t, ast.Name) and t.id == name for t in n.targets):
                out.append((n, None))
    return out


def decrements_of(loop, counter):
    """statements in the loop body that lower `counter`: list of (stmt, amount_expr)"""
    out = []
    for st in loop.body:
        for n in walk_shallow(st):
            if isinstance(n, ast.AugAssign) and isinstance(n.target, ast.Name) and n.target.id == counter:
                if isinstance(n.op, ast.Sub):
                    out.append((n, n.value))
                else:
                    out.append((n, None))
            elif isinstance(n, ast.Assign) and any(isinstance(t, ast.Name) and t.id == counter for t in n.targets):
                v = n.value
                if (isinstance(v, ast.BinOp) and isinstance(v.op, ast.Sub) and isinstance(v.left, ast.Name)
                        and v.left.id == counter):
                    out.append((n, v.right))
                else:
                    out.append((n, None))
    return out


def falsy_tests(cfg, name, within=None):
    """CFG test nodes that test emptiness of `name`: returns list of (node, empty_label) where empty_label is
    the edge label ('true'/'false') taken when the value is empty/falsy.
    Recognised: `not x`, `x`, `len(x) == 0`, `x == b''`, `not len(x)`, `len(x) < 1`, `x is None`-free."""
    out = []
    for n in cfg.nodes:
        if n.kind != 'test':
            continue
        if within is not None and not _inside(n.ast, within):
            continue
        t, neg = strip_not(n.ast)
        lab = None
        if isinstance(t, ast.Name) and t.id == name:
            lab = 'true' if neg else 'false'
        elif is_len_of(t, name):
            lab = 'true' if neg else 'false'
        else:
            cp = compare_parts(t)
            if cp:
                a, op, b = cp
                if is_len_of(a, name) and isinstance(b, ast.Constant):
                    if (op is ast.Eq and b.value == 0) or (op is ast.Lt and b.value == 1) or (op is ast.LtE and b.value == 0):
                        lab = 'false' if neg else 'true'
                    elif (op is ast.Gt and b.value == 0) or (op is ast.GtE and b.value == 1) or (op is ast.NotEq and b.value == 0):
                        lab = 'true' if neg else 'false'
                elif isinstance(a, ast.Name) and a.id == name and isinstance(b, ast.Constant) and b.value in (b'', ''):
                    if op is ast.Eq:
                        lab = 'false' if neg else 'true'
                    elif op is ast.NotEq:
                        lab = 'true' if neg else 'false'
            elif isinstance(t, ast.BoolOp) and isinstance(t.op, ast.Or) and not neg:
                # `not c or other`: the empty case takes the true edge (possibly with others)
                for v in t.values:
                    vv, vneg = strip_not(v)
                    if isinstance(vv, ast.Name) and vv.id == name and vneg:
                        lab = 'true'
        if lab:
            out.append((n, lab))
    return out


def _inside(node, container):
    if isinstance(container, list):
        return any(_inside(node, c) for c in container)
    for x in ast.walk(container):
        if x is node:
            return True
    return False


def yield_nodes(cfg, within=None):
    out = []
    for n in cfg.nodes:
        if n.kind == 'stmt' and n.ast is not None:
            for x in walk_shallow(n.ast):
                if isinstance(x, (ast.Yield, ast.YieldFrom)):
                    if within is None or _inside(n.ast, within):
                        out.append(n)
                    break
    return out


def succ_by_label(node, label):
    return [m for (m, l) in node.succ if l == label]


# --------------------------------------------------------------------------- small evaluator
class CannotEval(Exception):
    pass


def peval(node, env=None, funcs=None, depth=0):
    """Evaluate literal-building expressions: constants, tuples/lists/sets/dicts, names bound in `env`,
    + * % on constants, str methods split/join/upper/lower, conditional expressions whose test evaluates,
    len(), comparisons.  Raises CannotEval otherwise."""
    env = env or {}
    if depth > 40:
        raise CannotEval('depth')
    ev = lambda n: peval(n, env, funcs, depth + 1)
    if isinstance(node, ast.Constant):
        return node.value
    if isinstance(node, ast.Name):
        if node.id in env:
            v = env[node.id]
            if isinstance(v, ast.AST):
                return ev(v)
            return v
        if node.id in ('True', 'False', 'None'):
            return {'True': True, 'False': False, 'None': None}[node.id]
        raise CannotEval(f'name {node.id}')
    if isinstance(node, ast.Tuple):
        return tuple(ev(e) for e in node.elts)
    if isinstance(node, ast.List):
        return [ev(e) for e in node.elts]
    if isinstance(node, ast.Set):
        return set(ev(e) for e in node.elts)
    if isinstance(node, ast.Dict):
        if any(k is None for k in node.keys):
            raise CannotEval('dict unpack')
        return {ev(k): ev(v) for k, v in zip(node.keys, node.values)}
    if isinstance(node, ast.BinOp):
        l, r = ev(node.left), ev(node.right)
        try:
            if isinstance(node.op, ast.Add):
                return l + r
            if isinstance(node.op, ast.Mult):
                return l * r
            if isinstance(node.op, ast.Sub):
                return l - r
            if isinstance(node.op, ast.Mod):
                return l % r
            if isinstance(node.op, ast.BitOr):
                return l | r
        except Exception as e:
            raise CannotEval(str(e))
        raise CannotEval('binop')
    if isinstance(node, ast.UnaryOp):
        v = ev(node.operand)
        if isinstance(node.op, ast.Not):
            return not v
        if isinstance(node.op, ast.USub):
            return -v
        raise CannotEval('unary')
    if isinstance(node, ast.IfExp):
        return ev(node.body) if ev(node.test) else ev(node.orelse)
    if isinstance(node, ast.Compare) and len(node.ops) == 1:
        l, r = ev(node.left), ev(node.comparators[0])
        op = node.ops[0]
        try:
            if isinstance(op, ast.Eq):
                return l == r
            if isinstance(op, ast.NotEq):
                return l != r
            if isinstance(op, ast.In):
                return l in r
            if isinstance(op, ast.NotIn):
                return l not in r
            if isinstance(op, ast.Is):
                return l is r
            if isinstance(op, ast.IsNot):
                return l is not r
            if isinstance(op, ast.Lt):
                return l < r
            if isinstance(op, ast.Gt):
                return l > r
            if isinstance(op, ast.LtE):
                return l <= r
            if isinstance(op, ast.GtE):
                return l >= r
        except Exception as e:
            raise CannotEval(str(e))
    if isinstance(node, ast.BoolOp):
        vals = [ev(v) for v in node.values]
        if isinstance(node.op, ast.And):
            r = True
            for v in vals:
                r = v
                if not v:
                    break
            return r
        r = False
        for v in vals:
            r = v
            if v:
                break
        return r
    if isinstance(node, ast.JoinedStr):
        parts = []
        for v in node.values:
            if isinstance(v, ast.Constant):
                parts.append(str(v.value))
            elif isinstance(v, ast.FormattedValue) and v.format_spec is None and v.conversion == -1:
                parts.append(str(ev(v.value)))
            else:
                raise CannotEval('fstring')
        return ''.join(parts)
    if isinstance(node, ast.Call):
        f = node.func
        pure = {'len': len, 'set': set, 'list': list, 'tuple': tuple, 'sorted': sorted, 'frozenset': frozenset, 'str': str, 'dict': dict,
                'chr': chr, 'ord': ord, 'max': max, 'min': min, 'range': range, 'int': int, 'abs': abs, 'bytes': bytes}
        if isinstance(f, ast.Name) and f.id in pure and not node.keywords:
            args = [ev(a) for a in node.args]
            try:
                r_ = pure[f.id](*args)
                if isinstance(r_, range):
                    if len(r_) > 100000:
                        raise CannotEval('range too long')
                    r_ = list(r_)
                return r_
            except CannotEval:
                raise
            except Exception as e:
                raise CannotEval(str(e))
        if isinstance(f, ast.Attribute) and f.attr in ('get', 'keys', 'values', 'items') and not node.keywords:
            recv = ev(f.value)
            if isinstance(recv, dict):
                args = [ev(a) for a in node.args]
                try:
                    r_ = getattr(recv, f.attr)(*args)
                    return list(r_) if f.attr != 'get' else r_
                except Exception as e:
                    raise CannotEval(str(e))
        if isinstance(f, ast.Attribute) and f.attr in ('split', 'upper', 'lower', 'join', 'strip', 'title') \
                and not node.keywords:
            recv = ev(f.value)
            args = [ev(a) for a in node.args]
            if isinstance(recv, (str, bytes)):
                try:
                    return getattr(recv, f.attr)(*args)
                except Exception as e:
                    raise CannotEval(str(e))
        raise CannotEval('call ' + short(node, 40))
    if isinstance(node, ast.Subscript):
        v = ev(node.value)
        if isinstance(node.slice, ast.Slice):
            lo = ev(node.slice.lower) if node.slice.lower else None
            hi = ev(node.slice.upper) if node.slice.upper else None
            st = ev(node.slice.step) if node.slice.step else None
            return v[lo:hi:st]
        try:
            return v[ev(node.slice)]
        except CannotEval:
            raise
        except Exception as e:
            raise CannotEval(str(e))
    if isinstance(node, (ast.ListComp, ast.SetComp, ast.DictComp, ast.GeneratorExp)) and len(node.generators) == 1 and not node.generators[0].is_async:
        gen = node.generators[0]
        seq = ev(gen.iter)
        try:
            seq = list(seq)
        except Exception as e:
            raise CannotEval(str(e))
        if len(seq) > 100000:
            raise CannotEval('comprehension too long')
        out = []
        for item in seq:
            env2 = dict(env)
            if isinstance(gen.target, ast.Name):
                env2[gen.target.id] = item
            elif isinstance(gen.target, ast.Tuple) and all(isinstance(e_, ast.Name) for e_ in gen.target.elts):
                try:
                    vals_ = list(item)
                except Exception as e:
                    raise CannotEval(str(e))
                if len(vals_) != len(gen.target.elts):
                    raise CannotEval('unpack')
                for e_, v_ in zip(gen.target.elts, vals_):
                    env2[e_.id] = v_
            else:
                raise CannotEval('comprehension target')
            # plain values shadow AST bindings of the same name
            if all(peval(c_, env2, funcs, depth + 1) for c_ in gen.ifs):
                if isinstance(node, ast.DictComp):
                    out.append((peval(node.key, env2, funcs, depth + 1), peval(node.value, env2, funcs, depth + 1)))
                else:
                    out.append(peval(node.elt, env2, funcs, depth + 1))
        if isinstance(node, ast.DictComp):
            return dict(out)
        if isinstance(node, ast.SetComp):
            return set(out)
        return out
    if isinstance(node, ast.Starred):
        raise CannotEval('starred')
    raise CannotEval(type(node).__name__)


def module_consts(module):
    """module-level names bound exactly once to an evaluable expression -> value"""
    env = {}
    for name, vals in module.assigns.items():
        if len(vals) != 1:
            continue
        env[name] = vals[0]
    out = {}
    for name in env:
        try:
            out[name] = peval(env[name], env)
        except CannotEval:
            pass
    return out


def entry_node_of(cfg, st):
    """the CFG node control reaches first when statement `st` starts executing"""
    while True:
        if isinstance(st, ast.Try):
            st = st.body[0]
            continue
        if isinstance(st, (ast.If, ast.While)):
            ns = cfg.nodes_for(st.test)
        elif isinstance(st, (ast.For, ast.With)):
            ns = cfg.nodes_for(st)
        else:
            ns = cfg.nodes_for(st)
        if not ns:
            raise AnalysisError(f'no CFG node for statement at line {getattr(st, "lineno", 0)}')
        return ns[0]


def resolved_callee(f, call):
    """dotted name of the callee with a local alias resolved one level: `rd = self._body.read; rd(n)` -> 'self._body.read'"""
    d = dotted(call.func)
    if isinstance(call.func, ast.Name) and f.rd.is_local(call.func.id):
        ns = f.cfg.node_of_stmt(call)
        if ns:
            defs = f.rd.at(ns[0], call.func.id)
            vals = {dotted(x.value) for x in defs if x.kind == 'assign' and x.value is not None and isinstance(x.value, (ast.Attribute, ast.Name))}
            if len(vals) == 1 and None not in vals:
                return vals.pop()
    return d


def clone(node):
    """copy of an AST subtree; the parent links (`_p`) of the original are not followed (copy.deepcopy would drag the whole module along)"""
    if isinstance(node, list):
        return [clone(x) for x in node]
    if not isinstance(node, ast.AST):
        return node
    new = node.__class__()
    for field, val in ast.iter_fields(node):
        v = clone(val)
        setattr(new, field, v)
        for c in (v if isinstance(v, list) else [v]):
            if isinstance(c, ast.AST):
                c._p = new
    for a in ('lineno', 'col_offset', 'end_lineno', 'end_col_offset'):
        if hasattr(node, a):
            setattr(new, a, getattr(node, a))
    if hasattr(node, '_inlined_from'):
        new._inlined_from = node._inlined_from
    return new


def expand(f, expr, at=None, depth=5, keep=()):
    """`expr` with local temporaries replaced by their defining expressions: a Name whose only reaching definition
    at `at` is a plain `name = <value>` is replaced by <value> (recursively, evaluated where it was bound).  Names with
    several reaching definitions, parameters, loop targets and names in `keep` stay.  Returns a fresh tree."""
    import copy as _copy
    if at is None:
        ns = f.cfg.node_of_stmt(expr)
        if not ns:
            return expr
        at = ns[0]
    rd = f.rd

    def rec(e, at_node, d):
        if isinstance(e, ast.Name) and isinstance(e.ctx, ast.Load) and e.id not in keep and rd.is_local(e.id) and d > 0:
            defs = rd.at(at_node, e.id)
            if len(defs) == 1 and defs[0].kind == 'assign' and defs[0].value is not None and \
                    e.id not in {x.id for x in ast.walk(defs[0].value) if isinstance(x, ast.Name)}:
                return rec(clone(defs[0].value), defs[0].node, d - 1)
            return e
        if isinstance(e, (ast.Lambda, ast.ListComp, ast.SetComp, ast.DictComp, ast.GeneratorExp)):
            return e
        for field, val in ast.iter_fields(e):
            if isinstance(val, ast.expr):
                setattr(e, field, rec(val, at_node, d))
            elif isinstance(val, list):
                for i, x in enumerate(val):
                    if isinstance(x, ast.expr):
                        val[i] = rec(x, at_node, d)
                    elif isinstance(x, ast.keyword):
                        x.value = rec(x.value, at_node, d)
        return e
    return rec(clone(expr), at, depth)


def xsrc(f, expr, at=None, keep=()):
    """source text of expand(...)"""
    from .astutil import src
    return src(expand(f, expr, at, keep=keep))


def ceval(f, node, extra=None):
    """peval with the single-assignment module-level constants of f's module in scope (f: Func or Module)"""
    m = getattr(f, 'module', f)
    env = dict(module_consts(m))
    if extra:
        env.update(extra)
    return peval(node, env)


def truth(test, atom):
    """three-valued evaluation of a boolean test: `atom(expr)` gives True / False / None (unknown) for the leaves;
    not / and / or are interpreted.  Returns True / False / None."""
    if isinstance(test, ast.UnaryOp) and isinstance(test.op, ast.Not):
        v = truth(test.operand, atom)
        return None if v is None else (not v)
    if isinstance(test, ast.BoolOp):
        vals = [truth(v, atom) for v in test.values]
        if isinstance(test.op, ast.And):
            if any(v is False for v in vals):
                return False
            return True if all(v is True for v in vals) else None
        if any(v is True for v in vals):
            return True
        return False if all(v is False for v in vals) else None
    return atom(test)


def module_value(f, node):
    """a Name bound exactly once at module level -> its value expression (else the node itself)"""
    m = getattr(f, 'module', f)
    seen = 0
    while isinstance(node, ast.Name) and len(m.assigns.get(node.id, ())) == 1 and seen < 5:
        node = m.assigns[node.id][0]
        seen += 1
    return node


def result_values(f):
    """What a function hands back, per producing site: [(value expr, CFG node where it is evaluated, Return stmt)].  `return <expr>`
    gives the expression itself; `return name` where `name` is a local with several reaching assignments (the single-exit style:
    `result = ...` on every branch, one `return result` at the end) gives one entry per assignment."""
    out = []
    g, rd = f.cfg, f.rd
    for n in g.nodes:
        if n.kind != 'stmt' or not isinstance(n.ast, ast.Return) or n not in g.reachable():
            continue
        v = n.ast.value
        if isinstance(v, ast.Name) and rd.is_local(v.id):
            defs = rd.at(n, v.id)
            if defs and all(d.kind == 'assign' and d.value is not None for d in defs):
                for d in defs:
                    out.append((d.value, d.node, n.ast))
                continue
        out.append((v, n, n.ast))
    return out


def early_stop_bound(loop):
    """`while n > k` (k >= 1) / `while n >= k` (k >= 2) on a remaining-length counter: (name, bytes left unread) - the loop gives up while that
    many units are still outstanding.  None for every other test."""
    ts = loop.test.values if isinstance(loop.test, ast.BoolOp) and isinstance(loop.test.op, ast.And) else [loop.test]
    for t in ts:
        cp = compare_parts(t)
        if not cp:
            continue
        a, op, b = cp
        if isinstance(b, ast.Name) and isinstance(a, ast.Constant):       # `k < n`
            a, b = b, a
            op = {ast.Lt: ast.Gt, ast.LtE: ast.GtE}.get(op, None)
        if isinstance(a, ast.Name) and isinstance(b, ast.Constant) and isinstance(b.value, int) and not isinstance(b.value, bool):
            if op is ast.Gt and b.value >= 1:
                return a.id, b.value
            if op is ast.GtE and b.value >= 2:
                return a.id, b.value - 1
    return None


def weak_loop_bound(loop):
    """the loop condition is one of the recognised *insufficient* bounds for a remaining-length counter: plain truthiness (`while n:`),
    `n != 0`, `n >= 0`, `n is not None`, or `while True` without any exit.  Anything else that `counter_of_while` does not understand
    (e.g. a count-up formulation `limit > received`) is simply a form without a recogniser."""
    t = loop.test
    if isinstance(t, ast.Name):
        return True
    cp = compare_parts(t)
    if cp:
        a, op, b = cp
        if isinstance(a, ast.Name) and ((op is ast.NotEq and is_const(b, 0)) or (op is ast.GtE and is_const(b, 0)) or
                                        (op is ast.IsNot and isinstance(b, ast.Constant) and b.value is None)):
            return True
    if isinstance(t, ast.Constant) and t.value is True:
        exits = [x for x in ast.walk(loop) if isinstance(x, (ast.Break, ast.Return, ast.Raise))]
        return not exits
    if isinstance(t, ast.BoolOp) and isinstance(t.op, ast.And):
        return all(isinstance(v, ast.Name) or (compare_parts(v) and compare_parts(v)[1] in (ast.NotEq, ast.IsNot)) for v in t.values)
    return False


def guard_atoms(f, node, within=None):
    """Facts that hold whenever control reaches CFG node `node`, read off the tests whose one edge dominates it:
    [(atom expr, holds: bool, test node)].  A test taken on its true edge contributes its and-conjuncts as holding, on its false
    edge its or-disjuncts as not holding; `not` flips; flags are replaced by the expression they were computed from
    (`has_limit = limit is not None; if has_limit:` yields the atom `limit is not None`).  `within`: only tests inside that AST node."""
    g = f.cfg
    out = []

    def add(e, holds, tn):
        while isinstance(e, ast.UnaryOp) and isinstance(e.op, ast.Not):
            e, holds = e.operand, not holds
        if isinstance(e, ast.BoolOp):
            if isinstance(e.op, ast.And) and holds:
                for v in e.values:
                    add(v, True, tn)
                return
            if isinstance(e.op, ast.Or) and not holds:
                for v in e.values:
                    add(v, False, tn)
                return
        out.append((e, holds, tn))
    for tn in g.nodes:
        if tn.kind != 'test' or tn is node:
            continue
        if within is not None and not _inside(tn.ast, within):
            continue
        for lab in ('true', 'false'):
            if g.edge_dominates(tn, lab, node):
                add(expand(f, tn.ast, tn), lab == 'true', tn)
    return out


def holds_not_none(atoms, name):
    """some dominating test establishes `name is not None`"""
    for (e, holds, _) in atoms:
        cp = compare_parts(e)
        if cp and isinstance(cp[0], ast.Name) and cp[0].id == name and isinstance(cp[2], ast.Constant) and cp[2].value is None:
            if (cp[1] is ast.IsNot and holds) or (cp[1] is ast.Is and not holds):
                return True
    return False


def calls_to(f, *names, shallow=True):
    """calls in f whose callee, with local aliases substituted back (`rd = self.radidict; rd.add(..)`), is one of the dotted names"""
    from .astutil import walk_shallow as _ws
    out = []
    for c in (_ws(f.node) if shallow else ast.walk(f.node)):
        if not isinstance(c, ast.Call):
            continue
        d = dotted(c.func)
        if d in names:
            out.append(c)
            continue
        base = c.func
        while isinstance(base, ast.Attribute):
            base = base.value
        if isinstance(base, ast.Name) and not isinstance(f.node, ast.Lambda) and f.rd.is_local(base.id) and base.id not in ('self', 'cls'):
            ns = f.cfg.node_of_stmt(c)
            if ns:
                try:
                    xd = dotted(expand(f, c.func, ns[0]))
                except Exception:
                    xd = None
                if xd in names:
                    out.append(c)
    return out


def reachable_assuming(f, target, atom, start=None):
    """Can control reach CFG node `target` on a path along which every test agrees with the assumption?  `atom(expr)` gives True / False /
    None for the leaves of the tests (and/or/not are interpreted, see `truth`); a test whose value is determined lets only that edge
    through.  Exception edges are not followed.  A False answer means: under the assumption the node is never executed."""
    g = f.cfg
    starts = [start or g.entry]
    seen = set(starts)
    work = list(starts)
    while work:
        n = work.pop()
        if n is target:
            return True
        tv = truth(n.ast, atom) if n.kind == 'test' else None
        for (m, lab) in n.succ:
            if lab == 'exc':
                continue
            if n.kind == 'test' and tv is not None and lab in ('true', 'false') and (lab == 'true') != tv:
                continue
            if m not in seen:
                seen.add(m)
                work.append(m)
    return target in seen
