"""Entry point: python -m sa.run <ID> [--tier quick|thorough] [--root DIR] [--replay FILE]"""
import argparse
import importlib
import os
import sys
import traceback

from .loader import Project, AnalysisError
from .report import Report
from .rules import CannotEval


def run_one(pid, tier, root, seed, quiet=False):
    mod = importlib.import_module(f'sa.props.{pid.lower()}')
    R = Report(pid, tier, seed, root)
    err = None
    stats = None
    try:
        P = Project(root)
        mod.check(P, R)
        ncfg = 0
        for fq in R.functions:
            f = P.funcs.get(fq)
            if f is not None:
                ncfg += len(f.cfg.nodes)
        stats = dict(files_parsed=len(P.modules), package_functions=len(P.funcs), cfg_nodes=ncfg,
                     source_digest=P.digest)
        if len(P.modules) < 20:
            raise AnalysisError(f'only {len(P.modules)} modules parsed under {root}/ombott (23 on the pinned tree)')
        if tier == 'thorough' and not os.environ.get('SA_NO_BATTERY'):
            if hasattr(mod, 'thorough'):
                mod.thorough(P, R)
            # self-validation of the rules of this property: only meaningful when the tree itself is clean
            if not any(o['verdict'] == 'violated' and o['key'] not in {e['key'] for e in R.load_known() if e.get('kind') == 'known'} for o in R.obligations):
                from . import battery
                res = battery.run_battery(pid, root)
                R.battery = dict(
                    benign_twins=[dict(kind=t['kind'], exit=t['rc']) for t in res['twins']],
                    mutants=[dict(name=m['name'], exit=m['rc'], first_report=(m['lines'] or [''])[0][:200]) for m in res['mutants']],
                    mutants_total=len(res['mutants']), mutants_detected=sum(1 for m in res['mutants'] if m['rc'] == 1),
                    twins_total=len(res['twins']), twins_silent=sum(1 for t in res['twins'] if t['rc'] == 0),
                    benign_refactorings_total=len(res['benign']), benign_refactorings_silent=sum(1 for t in res['benign'] if t['rc'] == 0),
                    skipped_patches_not_applicable_to_this_tree=res['skipped'])
                problems = []
                if res['noisy']:
                    problems.append(f'rules fire on behaviour-preserving twins {res["noisy"]}')
                if res['undecided']:
                    problems.append(f'rules cannot decide on behaviour-preserving twins {res["undecided"]}')
                if res['missed']:
                    problems.append(f'seeded mutants not reported {res["missed"]}')
                if problems:
                    raise AnalysisError('self-validation battery: ' + '; '.join(problems))
    except AnalysisError as e:
        err = str(e)
    except CannotEval as e:   # an expression / statement form the evaluators have no rule for: no verdict (never a violation)
        err = f'shape not recognised (no verdict): {e}'
    except Exception as e:  # a bug in the analysis is never a verdict about the code
        traceback.print_exc(file=sys.stderr)
        err = f'internal error {type(e).__name__}: {e}'
    return R.finalize(mod, analysis_error=err, stats=stats)


def main(argv=None):
    ap = argparse.ArgumentParser()
    ap.add_argument('pid')
    ap.add_argument('--tier', default=os.environ.get('VERIF_TIER') or 'quick', choices=['quick', 'thorough'])
    ap.add_argument('--root', default=os.environ.get('OMBOTT_ROOT') or '/repo')
    ap.add_argument('--replay', default=None)
    a = ap.parse_args(argv)
    try:
        seed = int(os.environ.get('VERIF_SEED') or 0)
    except ValueError:
        seed = 0
    if a.replay:
        # a replay file lists violated obligations; replaying = re-running the rules on the current tree
        print(f'replaying {a.replay}: re-running the rules of {a.pid} on {a.root}')
    return run_one(a.pid.upper(), a.tier, a.root, seed)


if __name__ == '__main__':
    sys.exit(main())
