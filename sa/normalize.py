"""Canonical form of the parsed source, applied before any rule looks at it.

Behaviour-preserving spellings are collapsed so that rules need to know one form only:
  not (a is b) -> a is not b      not (a == b) -> a != b      not (a in b) -> a not in b      not not x -> x (in tests)
  not (a < b)  -> a >= b  (and the three other orderings; single comparisons only)
  x = x + e    -> x += e          x = x - e    -> x -= e      (simple names)
  if not c: A else: B  ->  if c: B else: A       (both branches present, no elif chain on the swapped side)
  `pass` dropped from bodies that have other statements
  while True: if c: break; <body>  ->  while not c: <body>     (also `if c: return` when the loop ends the function)
  a trailing `return` / `return None` of a function body is dropped
  t = <expr>; return t  ->  return <expr>        (t bound once and read once in the function)
Positions (lineno / col_offset) of the original nodes are kept.
"""
import ast

_NEG = {ast.Is: ast.IsNot, ast.IsNot: ast.Is, ast.Eq: ast.NotEq, ast.NotEq: ast.Eq, ast.In: ast.NotIn, ast.NotIn: ast.In,
        ast.Lt: ast.GtE, ast.GtE: ast.Lt, ast.Gt: ast.LtE, ast.LtE: ast.Gt}


def negate(test):
    """canonical negation of a test expression"""
    if isinstance(test, ast.UnaryOp) and isinstance(test.op, ast.Not):
        return test.operand
    if isinstance(test, ast.Compare) and len(test.ops) == 1:
        new = ast.Compare(left=test.left, ops=[_NEG[type(test.ops[0])]()], comparators=test.comparators)
        return ast.copy_location(new, test)
    return ast.copy_location(ast.UnaryOp(op=ast.Not(), operand=test), test)


class Normalizer(ast.NodeTransformer):
    def visit_UnaryOp(self, node):
        self.generic_visit(node)
        if isinstance(node.op, ast.Not):
            inner = node.operand
            if isinstance(inner, ast.Compare) and len(inner.ops) == 1:
                return negate(inner)
            if isinstance(inner, ast.UnaryOp) and isinstance(inner.op, ast.Not) and self._in_test_position(node):
                return inner.operand
        return node

    def _in_test_position(self, node):
        return False   # `not not x` yields a bool; only rewritten by visit_If / visit_While below where truthiness is all that matters

    def _strip_double_not(self, test):
        while isinstance(test, ast.UnaryOp) and isinstance(test.op, ast.Not) and isinstance(test.operand, ast.UnaryOp) \
                and isinstance(test.operand.op, ast.Not):
            test = test.operand.operand
        return test

    def visit_Assign(self, node):
        self.generic_visit(node)
        if len(node.targets) == 1 and isinstance(node.targets[0], ast.Name) and isinstance(node.value, ast.BinOp) \
                and isinstance(node.value.op, (ast.Add, ast.Sub)) and isinstance(node.value.left, ast.Name) \
                and node.value.left.id == node.targets[0].id:
            new = ast.AugAssign(target=ast.Name(id=node.targets[0].id, ctx=ast.Store()), op=node.value.op, value=node.value.right)
            ast.copy_location(new.target, node.targets[0])
            return ast.copy_location(new, node)
        return node

    def _clean_body(self, body):
        if len(body) > 1:
            kept = [s for s in body if not isinstance(s, ast.Pass)]
            body = kept or [body[0]]
        return self._fold_min(body)

    @staticmethod
    def _unguard_continue(body):
        """loop body ending `...; if A or B: continue; REST` (a De-Morgan guard: at least one disjunct a comparison or a negation) -> `...; if not A and not B: REST`"""
        for i in range(len(body) - 2, -1, -1):
            st = body[i]
            if isinstance(st, ast.If) and not st.orelse and len(st.body) == 1 and isinstance(st.body[0], ast.Continue) and isinstance(st.test, ast.BoolOp) \
                    and isinstance(st.test.op, ast.Or) and any(isinstance(v, ast.Compare) or (isinstance(v, ast.UnaryOp) and isinstance(v.op, ast.Not)) for v in st.test.values):
                rest = body[i + 1:]
                if not rest:
                    return body
                test = ast.copy_location(ast.BoolOp(op=ast.And(), values=[negate(v) for v in st.test.values]), st.test)
                new = ast.copy_location(ast.If(test=test, body=rest, orelse=[]), st)
                ast.fix_missing_locations(new)
                return body[:i] + [new]
            if isinstance(st, (ast.For, ast.While, ast.Try, ast.With)) or (isinstance(st, ast.If) and any(isinstance(x, (ast.Continue, ast.Break)) for x in ast.walk(st))):
                return body
        return body

    @staticmethod
    def _fold_min(body):
        """`x = a; if b < x: x = b`  ->  `x = min(a, b)`   (two-argument min written out; a, b plain names / attributes / constants)"""
        def simple(e):
            return isinstance(e, (ast.Name, ast.Constant)) or (isinstance(e, ast.Attribute) and simple(e.value))
        out = []
        i = 0
        while i < len(body):
            st = body[i]
            nx = body[i + 1] if i + 1 < len(body) else None
            if isinstance(st, ast.Assign) and len(st.targets) == 1 and isinstance(st.targets[0], ast.Name) \
                    and not any(isinstance(x_, ast.Name) and x_.id == st.targets[0].id for x_ in ast.walk(st.value)) \
                    and isinstance(nx, ast.If) and not nx.orelse and len(nx.body) == 1 and isinstance(nx.body[0], ast.Assign) \
                    and len(nx.body[0].targets) == 1 and isinstance(nx.body[0].targets[0], ast.Name) and nx.body[0].targets[0].id == st.targets[0].id \
                    and isinstance(nx.test, ast.Compare) and len(nx.test.ops) == 1 and simple(nx.body[0].value):
                x = st.targets[0].id
                b = nx.body[0].value
                l, op, r = nx.test.left, nx.test.ops[0], nx.test.comparators[0]
                fits = (isinstance(op, (ast.Lt, ast.LtE)) and ast.dump(l) == ast.dump(b) and isinstance(r, ast.Name) and r.id == x) or \
                    (isinstance(op, (ast.Gt, ast.GtE)) and ast.dump(r) == ast.dump(b) and isinstance(l, ast.Name) and l.id == x)
                if fits and not (isinstance(b, ast.Name) and b.id == x) and (simple(st.value) or isinstance(st.value, (ast.BinOp, ast.Call))):
                    call = ast.Call(func=ast.Name(id='min', ctx=ast.Load()), args=[st.value, b], keywords=[])
                    new = ast.Assign(targets=st.targets, value=ast.copy_location(call, st.value))
                    out.append(ast.copy_location(new, st))
                    i += 2
                    continue
                # `x = a; if x < b: x = b` -> `x = max(b, a)`  (the lower clip written out)
                fits_max = (isinstance(op, (ast.Gt, ast.GtE)) and ast.dump(l) == ast.dump(b) and isinstance(r, ast.Name) and r.id == x) or \
                    (isinstance(op, (ast.Lt, ast.LtE)) and ast.dump(r) == ast.dump(b) and isinstance(l, ast.Name) and l.id == x)
                if fits_max and not (isinstance(b, ast.Name) and b.id == x) and (simple(st.value) or isinstance(st.value, (ast.BinOp, ast.Call))):
                    call = ast.Call(func=ast.Name(id='max', ctx=ast.Load()), args=[b, st.value], keywords=[])
                    new = ast.Assign(targets=st.targets, value=ast.copy_location(call, st.value))
                    out.append(ast.copy_location(new, st))
                    i += 2
                    continue
            # `a, x = (E1, E2); if b < x: x = b` -> `a, x = (E1, min(E2, b))`  (the clip applied to one element of a pair)
            if isinstance(st, ast.Assign) and len(st.targets) == 1 and isinstance(st.targets[0], ast.Tuple) and isinstance(st.value, ast.Tuple) \
                    and len(st.targets[0].elts) == len(st.value.elts) and all(isinstance(e_, ast.Name) for e_ in st.targets[0].elts) \
                    and isinstance(nx, ast.If) and not nx.orelse and len(nx.body) == 1 and isinstance(nx.body[0], ast.Assign) \
                    and len(nx.body[0].targets) == 1 and isinstance(nx.body[0].targets[0], ast.Name) \
                    and isinstance(nx.test, ast.Compare) and len(nx.test.ops) == 1 and simple(nx.body[0].value):
                names_ = [e_.id for e_ in st.targets[0].elts]
                x = nx.body[0].targets[0].id
                if names_.count(x) == 1:
                    k = names_.index(x)
                    b = nx.body[0].value
                    l, op, r = nx.test.left, nx.test.ops[0], nx.test.comparators[0]
                    is_min = (isinstance(op, (ast.Lt, ast.LtE)) and ast.dump(l) == ast.dump(b) and isinstance(r, ast.Name) and r.id == x) or \
                        (isinstance(op, (ast.Gt, ast.GtE)) and ast.dump(r) == ast.dump(b) and isinstance(l, ast.Name) and l.id == x)
                    is_max = (isinstance(op, (ast.Gt, ast.GtE)) and ast.dump(l) == ast.dump(b) and isinstance(r, ast.Name) and r.id == x) or \
                        (isinstance(op, (ast.Lt, ast.LtE)) and ast.dump(r) == ast.dump(b) and isinstance(l, ast.Name) and l.id == x)
                    others_read = any(isinstance(y_, ast.Name) and y_.id in names_ for y_ in ast.walk(b))
                    if (is_min or is_max) and not others_read:
                        fn_ = 'min' if is_min else 'max'
                        args_ = [st.value.elts[k], b] if is_min else [b, st.value.elts[k]]
                        st.value.elts[k] = ast.copy_location(ast.Call(func=ast.Name(id=fn_, ctx=ast.Load()), args=args_, keywords=[]), st.value.elts[k])
                        out.append(st)
                        i += 2
                        continue
            out.append(st)
            i += 1
        return out

    def visit_Compare(self, node):
        """`x.find(y) != 0` -> `not x.startswith(y)`, `x.find(y) == 0` -> `x.startswith(y)` (text / bytes: find gives 0 exactly when the text starts with y)"""
        self.generic_visit(node)
        if len(node.ops) == 1 and isinstance(node.ops[0], (ast.Eq, ast.NotEq)) and isinstance(node.comparators[0], ast.Constant) and node.comparators[0].value == 0 \
                and type(node.comparators[0].value) is int and isinstance(node.left, ast.Call) and isinstance(node.left.func, ast.Attribute) and node.left.func.attr == 'find' \
                and len(node.left.args) == 1 and not node.left.keywords:
            call = ast.copy_location(ast.Call(func=ast.copy_location(ast.Attribute(value=node.left.func.value, attr='startswith', ctx=ast.Load()), node.left.func),
                                              args=node.left.args, keywords=[]), node)
            if isinstance(node.ops[0], ast.Eq):
                return call
            return ast.copy_location(ast.UnaryOp(op=ast.Not(), operand=call), node)
        return node

    def visit_IfExp(self, node):
        """`a if a < b else b` -> `min(a, b)`, `a if a > b else b` -> `max(a, b)` (and the mirrored spellings) for plain names / attributes / constants"""
        self.generic_visit(node)

        def simple(e):
            return isinstance(e, (ast.Name, ast.Constant)) or (isinstance(e, ast.Attribute) and simple(e.value))
        t = node.test
        if isinstance(t, ast.Compare) and len(t.ops) == 1 and isinstance(t.ops[0], (ast.Lt, ast.LtE, ast.Gt, ast.GtE)) and simple(node.body) and simple(node.orelse):
            l, r = ast.dump(t.left), ast.dump(t.comparators[0])
            bd, od = ast.dump(node.body), ast.dump(node.orelse)
            if {l, r} == {bd, od} and l != r:
                less = isinstance(t.ops[0], (ast.Lt, ast.LtE))
                # the body is chosen when the test holds: body == left and `<`  -> the smaller one
                picks_smaller = (bd == l) == less
                fn = 'min' if picks_smaller else 'max'
                # keep the argument order of the usual spelling: (body, orelse) for min, the same for max
                call = ast.Call(func=ast.Name(id=fn, ctx=ast.Load()), args=[node.orelse, node.body] if False else [node.body, node.orelse], keywords=[])
                return ast.copy_location(call, node)
        return node

    def visit_Return(self, node):
        """`return W(.., x, ..) if c else x` (wrap when ..) -> `if c: x = W(.., x, ..)` + `return x`"""
        self.generic_visit(node)
        v = node.value
        if isinstance(v, ast.IfExp) and isinstance(v.orelse, ast.Name) and isinstance(v.body, ast.Call) and isinstance(v.test, ast.Name) \
                and any(isinstance(a, ast.Name) and a.id == v.orelse.id for a in v.body.args) \
                and isinstance(v.body.func, ast.Name) and v.body.func.id.startswith('_'):
            x = v.orelse.id
            asg = ast.copy_location(ast.Assign(targets=[ast.Name(id=x, ctx=ast.Store())], value=v.body), node)
            cond = ast.copy_location(ast.If(test=v.test, body=[asg], orelse=[]), node)
            ret = ast.copy_location(ast.Return(value=ast.Name(id=x, ctx=ast.Load())), node)
            for n_ in (cond, ret):
                ast.fix_missing_locations(n_)
            return [cond, ret]
        return node

    @staticmethod
    def _format_to_fstring(node):
        """`'{}({})'.format(a, b)` with auto-numbered plain fields only -> f'{a}({b})'"""
        if not (isinstance(node.func, ast.Attribute) and node.func.attr == 'format' and isinstance(node.func.value, ast.Constant) and isinstance(node.func.value.value, str)
                and node.args and not node.keywords and not any(isinstance(a, ast.Starred) for a in node.args)):
            return None
        import string
        try:
            parts = list(string.Formatter().parse(node.func.value.value))
        except ValueError:
            return None
        vals, k = [], 0
        for (lit, fname, spec, conv) in parts:
            if lit:
                vals.append(ast.Constant(value=lit))
            if fname is None:
                continue
            if fname != '' or spec or conv:
                return None
            if k >= len(node.args):
                return None
            vals.append(ast.FormattedValue(value=node.args[k], conversion=-1, format_spec=None))
            k += 1
        if k != len(node.args):
            return None
        return ast.copy_location(ast.JoinedStr(values=vals), node)

    def visit_Call(self, node):
        """`all(f(x) for f in (a, b))` -> `a(x) and b(x)`, `any(..)` -> `.. or ..` over a literal tuple / list of names (same order, same short circuit;
        the value is used as a truth value wherever a rule looks at it)"""
        self.generic_visit(node)
        fs_ = self._format_to_fstring(node)
        if fs_ is not None:
            ast.fix_missing_locations(fs_)
            return fs_
        if isinstance(node.func, ast.Name) and node.func.id in ('all', 'any') and len(node.args) == 1 and not node.keywords \
                and isinstance(node.args[0], (ast.GeneratorExp, ast.ListComp)) and len(node.args[0].generators) == 1:
            gen = node.args[0].generators[0]
            if not gen.ifs and not gen.is_async and isinstance(gen.target, ast.Name) and isinstance(gen.iter, (ast.Tuple, ast.List)) and 2 <= len(gen.iter.elts) <= 8 \
                    and all(isinstance(e, (ast.Name, ast.Constant)) or (isinstance(e, ast.Attribute) and all(
                        isinstance(x, (ast.Name, ast.Attribute, ast.Load)) for x in ast.walk(e))) for e in gen.iter.elts) \
                    and not any(isinstance(x, (ast.Lambda, ast.GeneratorExp, ast.ListComp, ast.NamedExpr)) for x in ast.walk(node.args[0].elt)):
                import copy as _copy
                vals = []
                for e in gen.iter.elts:
                    body = _copy.deepcopy(node.args[0].elt)

                    class Sub(ast.NodeTransformer):
                        def visit_Name(self_, n):
                            if n.id == gen.target.id and isinstance(n.ctx, ast.Load):
                                return ast.copy_location(_copy.deepcopy(e), n)
                            return n
                    vals.append(Sub().visit(body))
                new = ast.BoolOp(op=ast.And() if node.func.id == 'all' else ast.Or(), values=vals)
                return ast.fix_missing_locations(ast.copy_location(new, node))
        return node

    def visit_If(self, node):
        self.generic_visit(node)
        node.test = self._strip_double_not(node.test)
        node.body = self._clean_body(node.body)
        node.orelse = self._clean_body(node.orelse) if node.orelse else node.orelse
        negative = (isinstance(node.test, ast.UnaryOp) and isinstance(node.test.op, ast.Not)) or \
            (isinstance(node.test, ast.Compare) and len(node.test.ops) == 1 and isinstance(node.test.ops[0], (ast.NotEq, ast.IsNot, ast.NotIn)))
        if node.orelse and negative:
            # swap so that the test is positive (== / is / in / plain truth); only when the else part is not itself an elif
            if not (len(node.orelse) == 1 and isinstance(node.orelse[0], ast.If)):
                node.test, node.body, node.orelse = negate(node.test), node.orelse, node.body
        return node

    def visit_While(self, node):
        self.generic_visit(node)
        node.test = self._strip_double_not(node.test)
        node.body = self._unguard_continue(self._clean_body(node.body))
        # `while True: if c: break; body`  ->  `while not c: body`   (no else clause on either)
        if isinstance(node.test, ast.Constant) and node.test.value is True and not node.orelse and len(node.body) >= 2:
            first = node.body[0]
            if isinstance(first, ast.If) and not first.orelse and len(first.body) == 1 and isinstance(first.body[0], ast.Break):
                node.test = negate(first.test)
                node.body = node.body[1:]
                return node
            # the loop-and-a-half `while True: x = E; if c: break; REST` is the priming-read loop `x = E; while not c: REST; x = E`
            second = node.body[1]
            if isinstance(first, ast.Assign) and len(first.targets) == 1 and isinstance(first.targets[0], ast.Name) and isinstance(first.value, ast.Call) \
                    and isinstance(first.value.func, ast.Attribute) and first.value.func.attr == 'read' and isinstance(first.value.func.value, ast.Name) \
                    and isinstance(second, ast.If) and not second.orelse and len(second.body) == 1 and isinstance(second.body[0], ast.Break) and len(node.body) >= 3 \
                    and not any(isinstance(x, ast.Continue) for b in node.body[2:] for x in ast.walk(b)) \
                    and any(isinstance(x, ast.Name) and x.id == first.targets[0].id for x in ast.walk(second.test)):
                import copy as _copy
                again = _copy.deepcopy(first)
                if isinstance(second.test, ast.BoolOp):
                    # De Morgan: the loop condition is the conjunction / disjunction of the negated parts
                    op_ = ast.And() if isinstance(second.test.op, ast.Or) else ast.Or()
                    test = ast.copy_location(ast.BoolOp(op=op_, values=[negate(v_) for v_ in second.test.values]), second.test)
                else:
                    test = negate(second.test)
                if isinstance(test, ast.UnaryOp) and isinstance(test.op, ast.Not) and isinstance(test.operand, ast.UnaryOp) and isinstance(test.operand.op, ast.Not):
                    test = test.operand.operand
                loop = ast.copy_location(ast.While(test=test, body=node.body[2:] + [again], orelse=[]), node)
                ast.fix_missing_locations(loop)
                return [first, loop]
        return node

    def visit_For(self, node):
        self.generic_visit(node)
        node.body = self._unguard_continue(self._clean_body(node.body))
        # `for n in itertools.count(k): body`  ->  `n = k - 1; while True: n += 1; body` (a `continue` reaches the increment in
        # both forms; the loop never runs dry, so an else-branch is dead)
        it = node.iter
        if (isinstance(it, ast.Call) and isinstance(node.target, ast.Name) and not it.keywords and len(it.args) <= 1
                and ((isinstance(it.func, ast.Attribute) and it.func.attr == 'count' and isinstance(it.func.value, ast.Name)
                      and it.func.value.id == 'itertools'))
                and all(isinstance(a, ast.Constant) and type(a.value) is int for a in it.args)):
            k = it.args[0].value if it.args else 0
            init = ast.copy_location(ast.Assign(targets=[ast.Name(id=node.target.id, ctx=ast.Store())],
                                                value=ast.Constant(value=k - 1)), node)
            inc = ast.copy_location(ast.AugAssign(target=ast.Name(id=node.target.id, ctx=ast.Store()), op=ast.Add(),
                                                  value=ast.Constant(value=1)), node)
            loop = ast.copy_location(ast.While(test=ast.Constant(value=True), body=[inc] + node.body, orelse=[]), node)
            for x in (init, inc, loop):
                ast.fix_missing_locations(x)
            return [init, loop]
        return node

    def visit_FunctionDef(self, node):
        self.generic_visit(node)
        node.body = self._clean_body(node.body)
        # a loop that ends the function: `while True: if c: return; body` -> `while not c: body`, and a bare `return` right in the
        # loop body is a `break`
        # falling off the end returns None: a trailing `return` / `return None` is dropped
        while len(node.body) > 1 and isinstance(node.body[-1], ast.Return) and (
                node.body[-1].value is None or (isinstance(node.body[-1].value, ast.Constant) and node.body[-1].value.value is None)):
            node.body.pop()
        last = node.body[-1] if node.body else None
        if isinstance(last, ast.While) and not last.orelse:
            def bare(st):
                return isinstance(st, ast.Return) and (st.value is None or (isinstance(st.value, ast.Constant) and st.value.value is None))
            if isinstance(last.test, ast.Constant) and last.test.value is True and len(last.body) >= 2:
                first = last.body[0]
                if isinstance(first, ast.If) and not first.orelse and len(first.body) == 1 and bare(first.body[0]):
                    last.test = negate(first.test)
                    last.body = last.body[1:]
            for st in last.body:
                if isinstance(st, ast.If) and not st.orelse and len(st.body) == 1 and bare(st.body[0]):
                    st.body = [ast.copy_location(ast.Break(), st.body[0])]
            # (the returns are breaks now: the loop-and-a-half rule of visit_While gets its chance)
            again = Normalizer.visit_While(self, last) if isinstance(last.test, ast.Constant) and last.test.value is True else last
            if isinstance(again, list):
                node.body[-1:] = again
        self._inline_return_temps(node)
        self._unzip_records(node)
        self._unsentinel(node.body)
        return node

    @staticmethod
    def _unsentinel(body):
        """`x = a if C else None; S; if x is None: <leaves>`  ->  `x = a; S; if not C: <leaves>`

        where C calls a method of the name `a` (so `a` is an object when C holds), the plain assignments S neither mention x nor
        bind a name that C reads, and the leaving branch does not read x: the None is only the messenger of `not C`."""
        for i, st in enumerate(body):
            if not (isinstance(st, ast.Assign) and len(st.targets) == 1 and isinstance(st.targets[0], ast.Name) and isinstance(st.value, ast.IfExp)):
                continue
            x, ie = st.targets[0].id, st.value
            if not (isinstance(ie.orelse, ast.Constant) and ie.orelse.value is None and isinstance(ie.body, ast.Name)):
                continue
            a, C = ie.body.id, ie.test
            if not any(isinstance(n, ast.Call) and isinstance(n.func, ast.Attribute) and isinstance(n.func.value, ast.Name) and n.func.value.id == a
                       for n in ast.walk(C)):
                continue
            if any(isinstance(n, (ast.Lambda, ast.Await, ast.Yield, ast.YieldFrom, ast.NamedExpr)) for n in ast.walk(C)):
                continue
            cnames = {n.id for n in ast.walk(C) if isinstance(n, ast.Name)}
            j = i + 1
            ok = True
            while j < len(body):
                nx = body[j]
                if isinstance(nx, ast.If):
                    break
                if not (isinstance(nx, ast.Assign) and all(isinstance(t, ast.Name) for t in nx.targets)):
                    ok = False
                    break
                names = {n.id for n in ast.walk(nx) if isinstance(n, ast.Name)}
                if x in names or ({t.id for t in nx.targets} & (cnames | {a})):
                    ok = False
                    break
                j += 1
            if not ok or j >= len(body):
                continue
            t = body[j]
            tt = t.test
            if not (isinstance(tt, ast.Compare) and len(tt.ops) == 1 and isinstance(tt.ops[0], ast.Is) and isinstance(tt.left, ast.Name) and tt.left.id == x
                    and isinstance(tt.comparators[0], ast.Constant) and tt.comparators[0].value is None and not t.orelse):
                continue
            if not (t.body and isinstance(t.body[-1], (ast.Return, ast.Raise))):
                continue
            if any(isinstance(n, ast.Name) and n.id == x for b in t.body for n in ast.walk(b)):
                continue
            if x in cnames and x != a:
                continue
            st.value = ie.body
            t.test = ast.copy_location(negate(C), tt)
            ast.fix_missing_locations(t)

    def _unzip_records(self, fn):
        """`W = list(zip(A, B, C))` ... `a, b, c = W[i]`  ->  `a = A[i]; b = B[i]; c = C[i]` when W is bound once and used for nothing else
        (parallel sequences read as records: the same objects are selected)"""
        def simple(e):
            return isinstance(e, ast.Name) or (isinstance(e, ast.Attribute) and simple(e.value))
        stores, parent = {}, {}
        for n in ast.walk(fn):
            for c in ast.iter_child_nodes(n):
                parent[id(c)] = n
            if isinstance(n, ast.Name) and isinstance(n.ctx, (ast.Store, ast.Del)):
                stores[n.id] = stores.get(n.id, 0) + 1
        cands = {}
        for n in ast.walk(fn):
            if isinstance(n, ast.Assign) and len(n.targets) == 1 and isinstance(n.targets[0], ast.Name) and stores.get(n.targets[0].id) == 1 \
                    and isinstance(n.value, ast.Call) and isinstance(n.value.func, ast.Name) and n.value.func.id in ('list', 'tuple') and len(n.value.args) == 1 \
                    and isinstance(n.value.args[0], ast.Call) and isinstance(n.value.args[0].func, ast.Name) and n.value.args[0].func.id == 'zip' \
                    and not n.value.args[0].keywords and all(simple(a) for a in n.value.args[0].args) and len(n.value.args[0].args) >= 2:
                cands[n.targets[0].id] = (n, n.value.args[0].args)
        for w, (wst, seqs) in cands.items():
            uses = [n for n in ast.walk(fn) if isinstance(n, ast.Name) and n.id == w and isinstance(n.ctx, ast.Load)]
            sites = []
            ok = bool(uses)
            for u in uses:
                sub = parent.get(id(u))
                asg = parent.get(id(sub)) if isinstance(sub, ast.Subscript) and sub.value is u and not isinstance(sub.slice, ast.Slice) else None
                if isinstance(asg, ast.Assign) and asg.value is sub and len(asg.targets) == 1 and isinstance(asg.targets[0], ast.Tuple) \
                        and len(asg.targets[0].elts) == len(seqs) and all(isinstance(t, ast.Name) for t in asg.targets[0].elts):
                    sites.append((asg, sub))
                else:
                    ok = False
            if not ok:
                continue
            for (asg, sub) in sites:
                new = []
                for t, seq in zip(asg.targets[0].elts, seqs):
                    import copy as _c
                    val = ast.Subscript(value=_c.deepcopy(seq), slice=_c.deepcopy(sub.slice), ctx=ast.Load())
                    new.append(ast.copy_location(ast.Assign(targets=[ast.Name(id=t.id, ctx=ast.Store())], value=ast.copy_location(val, sub)), asg))
                holder = parent.get(id(asg))
                for field in ('body', 'orelse', 'finalbody'):
                    lst = getattr(holder, field, None)
                    if isinstance(lst, list) and asg in lst:
                        i = lst.index(asg)
                        lst[i:i + 1] = new
            holder = parent.get(id(wst))
            for field in ('body', 'orelse', 'finalbody'):
                lst = getattr(holder, field, None)
                if isinstance(lst, list) and wst in lst:
                    lst.remove(wst)
                    if not lst:
                        lst.append(ast.copy_location(ast.Pass(), wst))

    def _inline_return_temps(self, fn):
        """`t = <expr>; return t` -> `return <expr>` when t is bound once and read once in the function"""
        stores, loads = {}, {}
        for n in ast.walk(fn):
            if isinstance(n, ast.Name):
                d = stores if isinstance(n.ctx, (ast.Store, ast.Del)) else loads
                d[n.id] = d.get(n.id, 0) + 1
        params = {a.arg for a in fn.args.posonlyargs + fn.args.args + fn.args.kwonlyargs}
        # loads of a name that are exactly `return <name>` right after `<name> = ...`
        paired = {}

        def count_pairs(body):
            for i in range(len(body) - 1):
                a, b = body[i], body[i + 1]
                if isinstance(a, ast.Assign) and len(a.targets) == 1 and isinstance(a.targets[0], ast.Name) and isinstance(b, ast.Return) \
                        and isinstance(b.value, ast.Name) and b.value.id == a.targets[0].id:
                    paired[a.targets[0].id] = paired.get(a.targets[0].id, 0) + 1
            for st in body:
                if isinstance(st, (ast.FunctionDef, ast.AsyncFunctionDef, ast.ClassDef)):
                    continue
                for field in ('body', 'orelse', 'finalbody'):
                    sub_ = getattr(st, field, None)
                    if isinstance(sub_, list):
                        count_pairs(sub_)
                for h in getattr(st, 'handlers', []) or []:
                    count_pairs(h.body)
        count_pairs(fn.body)

        def fix(body):
            i = 0
            while i + 1 < len(body):
                a, b = body[i], body[i + 1]
                if isinstance(a, ast.Assign) and len(a.targets) == 1 and isinstance(a.targets[0], ast.Name) and isinstance(b, ast.Return) \
                        and isinstance(b.value, ast.Name) and b.value.id == a.targets[0].id and a.targets[0].id not in params \
                        and loads.get(a.targets[0].id) == paired.get(a.targets[0].id) == stores.get(a.targets[0].id):
                    new = ast.Return(value=a.value)
                    ast.copy_location(new, b)
                    body[i:i + 2] = [new]
                    continue
                i += 1
            for st in body:
                for field in ('body', 'orelse', 'finalbody'):
                    sub_ = getattr(st, field, None)
                    if isinstance(sub_, list) and not isinstance(st, (ast.FunctionDef, ast.AsyncFunctionDef, ast.ClassDef)):
                        fix(sub_)
                for h in getattr(st, 'handlers', []) or []:
                    fix(h.body)
        fix(fn.body)

    visit_AsyncFunctionDef = visit_FunctionDef

    def visit_With(self, node):
        self.generic_visit(node)
        node.body = self._clean_body(node.body)
        return node

    def visit_Try(self, node):
        self.generic_visit(node)
        node.body = self._clean_body(node.body)
        node.finalbody = self._clean_body(node.finalbody) if node.finalbody else node.finalbody
        for h in node.handlers:
            h.body = self._clean_body(h.body)
        return node


class _Walrus(ast.NodeTransformer):
    """assignment expressions are lowered to assignment statements where that keeps the evaluation order:

        if (x := E) < 0: ..            ->  x = E; if x < 0: ..                 (the first thing the test evaluates)
        if A and (x := E): B           ->  if A: x = E; if x: B                 (no else-branch)
        while A and (x := E): B        ->  while A: x = E; if not x: break; B   (no else-branch; `while (x := E):` -> `while True: ..`)
        y = f(x := E) / return (x := E) ->  x = E; y = f(x)

    Anything else (a walrus in a comprehension, a lambda, the right operand of `or`, a loop with else) is left as it is."""

    @staticmethod
    def _pure(e):
        return all(isinstance(n, (ast.Name, ast.Constant, ast.Attribute, ast.expr_context, ast.Load)) for n in ast.walk(e))

    def _first(self, e):
        """(NamedExpr, holder setter) of a walrus that is evaluated unconditionally and before anything impure"""
        if isinstance(e, ast.NamedExpr):
            return e
        if isinstance(e, ast.UnaryOp):
            return self._first(e.operand)
        if isinstance(e, ast.Compare):
            r = self._first(e.left)
            if r is None and self._pure(e.left) and e.comparators:
                r = self._first(e.comparators[0])
            return r
        if isinstance(e, ast.BoolOp):
            return self._first(e.values[0])
        if isinstance(e, ast.Call):
            f = e.func
            if isinstance(f, ast.Attribute):
                r = self._first(f.value)
                if r is not None or not self._pure(f.value):
                    return r
            elif not isinstance(f, ast.Name):
                return None
            return self._first(e.args[0]) if e.args else None
        if isinstance(e, (ast.Attribute, ast.Subscript)):
            return self._first(e.value)
        if isinstance(e, ast.BinOp):
            r = self._first(e.left)
            if r is None and self._pure(e.left):
                r = self._first(e.right)
            return r
        return None

    @staticmethod
    def _replace(root, old, new):
        for parent in ast.walk(root):
            for field, val in ast.iter_fields(parent):
                if val is old:
                    setattr(parent, field, new)
                    return True
                if isinstance(val, list):
                    for i, x in enumerate(val):
                        if x is old:
                            val[i] = new
                            return True
        return False

    def _hoist(self, holder, field, at):
        """assignments to put in front of the statement for the walruses its expression `field` evaluates first"""
        pre = []
        for _ in range(4):
            e = getattr(holder, field)
            w = self._first(e) if e is not None else None
            if w is None or not isinstance(w.target, ast.Name):
                break
            pre.append(ast.copy_location(ast.Assign(targets=[ast.Name(id=w.target.id, ctx=ast.Store())], value=w.value), at))
            name = ast.copy_location(ast.Name(id=w.target.id, ctx=ast.Load()), w)
            if e is w:
                setattr(holder, field, name)
            else:
                self._replace(e, w, name)
        for a in pre:
            ast.fix_missing_locations(a)
        return pre

    @staticmethod
    def _has_walrus(e):
        return e is not None and any(isinstance(n, ast.NamedExpr) for n in ast.walk(e))

    def _split_and(self, test):
        """(prefix test or None, rest test) when `test` is an and-chain whose k-th operand (k >= 1) starts with a walrus"""
        if isinstance(test, ast.BoolOp) and isinstance(test.op, ast.And):
            for k, v in enumerate(test.values):
                if self._has_walrus(v):
                    if k == 0 or self._first(v) is None:
                        return None
                    pre = test.values[:k]
                    rest = test.values[k:]
                    mk = lambda vs: vs[0] if len(vs) == 1 else ast.copy_location(ast.BoolOp(op=ast.And(), values=vs), test)
                    return mk(pre), mk(rest)
        return None

    def visit_If(self, node):
        self.generic_visit(node)
        if not self._has_walrus(node.test):
            return node
        pre = self._hoist(node, 'test', node)
        if pre:
            out = pre + [node]
            return out
        sp = self._split_and(node.test)
        if sp is not None and not node.orelse:
            inner = ast.copy_location(ast.If(test=sp[1], body=node.body, orelse=[]), node)
            res = self.visit_If(inner)
            node.test = sp[0]
            node.body = res if isinstance(res, list) else [res]
            return node
        return node

    def visit_While(self, node):
        self.generic_visit(node)
        if not self._has_walrus(node.test) or node.orelse:
            return node
        sp = self._split_and(node.test)
        if sp is not None:
            prefix, rest = sp
        elif self._first(node.test) is not None:
            prefix, rest = ast.copy_location(ast.Constant(value=True), node.test), node.test
        else:
            return node
        guard = ast.copy_location(ast.If(test=ast.copy_location(ast.UnaryOp(op=ast.Not(), operand=rest), rest), body=[ast.copy_location(ast.Break(), node)], orelse=[]), node)
        pre = self._hoist(guard.test, 'operand', node)
        if not pre:
            return node
        node.test = prefix
        node.body = pre + [guard] + node.body
        ast.fix_missing_locations(node)
        return node

    def _stmt(self, node, field='value'):
        self.generic_visit(node)
        if self._has_walrus(getattr(node, field, None)):
            pre = self._hoist(node, field, node)
            if pre:
                return pre + [node]
        return node

    def visit_Assign(self, node):
        return self._stmt(node)

    def visit_Return(self, node):
        return self._stmt(node)

    def visit_Expr(self, node):
        return self._stmt(node)

    def visit_AugAssign(self, node):
        return self._stmt(node)


class _Match(ast.NodeTransformer):
    """`match subject:` with value / singleton / bare class / wildcard / capture / or-patterns (and guards) is the if/elif chain it abbreviates; a match
    statement with sequence, mapping or class-with-arguments patterns is left as it is"""

    def _test(self, pat, subj):
        """(test expr or True, [prefix statements]) or None when the pattern is not a simple one"""
        import copy as _copy
        S = lambda: _copy.deepcopy(subj)
        if isinstance(pat, ast.MatchValue):
            return ast.Compare(left=S(), ops=[ast.Eq()], comparators=[pat.value]), []
        if isinstance(pat, ast.MatchSingleton):
            return ast.Compare(left=S(), ops=[ast.Is()], comparators=[ast.Constant(value=pat.value)]), []
        if isinstance(pat, ast.MatchClass) and not pat.patterns and not pat.kwd_patterns:
            return ast.Call(func=ast.Name(id='isinstance', ctx=ast.Load()), args=[S(), pat.cls], keywords=[]), []
        if isinstance(pat, ast.MatchAs) and pat.pattern is None:
            if pat.name is None:
                return True, []
            return True, [ast.Assign(targets=[ast.Name(id=pat.name, ctx=ast.Store())], value=S())]
        if isinstance(pat, ast.MatchOr):
            parts = [self._test(p, subj) for p in pat.patterns]
            if any(p is None or p[1] or p[0] is True for p in parts):
                return None
            return ast.BoolOp(op=ast.Or(), values=[p[0] for p in parts]), []
        return None

    def visit_Match(self, node):
        self.generic_visit(node)
        subj = node.subject
        pre = []
        if not isinstance(subj, (ast.Name, ast.Constant)) and not (isinstance(subj, ast.Attribute) and isinstance(subj.value, ast.Name)):
            pre = [ast.Assign(targets=[ast.Name(id='_match_subject', ctx=ast.Store())], value=subj)]
            subj = ast.Name(id='_match_subject', ctx=ast.Load())
        cases = []
        for c in node.cases:
            t = self._test(c.pattern, subj)
            if t is None:
                return node
            test, prefix = t
            if prefix and c.guard is not None:
                return node              # a capture used by its own guard: keep the statement
            if c.guard is not None:
                test = c.guard if test is True else ast.BoolOp(op=ast.And(), values=[test, c.guard])
            cases.append((test, prefix + c.body))
        chain = []
        for test, body in reversed(cases):
            if test is True:
                chain = body
            else:
                chain = [ast.If(test=test, body=body, orelse=chain)]
        out = pre + (chain or [ast.Pass()])
        for x in out:
            ast.fix_missing_locations(ast.copy_location(x, node))
        return out


def normalize(tree):
    if hasattr(ast, 'Match') and any(isinstance(n, ast.Match) for n in ast.walk(tree)):
        tree = _Match().visit(tree)
        ast.fix_missing_locations(tree)
    if any(isinstance(n, ast.NamedExpr) for n in ast.walk(tree)):
        tree = _Walrus().visit(tree)
        ast.fix_missing_locations(tree)
    tree = Normalizer().visit(tree)
    ast.fix_missing_locations(tree)
    return tree
