"""Obligations, evidence, known findings, exit protocol."""
import json
import os
import sys
import time

from .loader import AnalysisError
from .astutil import short

VERIF = os.path.dirname(os.path.dirname(os.path.abspath(__file__)))


def norm_text(s):
    return ' '.join(str(s).split())


class Report:
    def __init__(self, pid, tier='quick', seed=0, root='/repo'):
        self.pid = pid
        self.tier = tier
        self.seed = seed
        self.root = root
        self.obligations = []
        self.notes = []
        self.unresolved = []
        self.functions = set()
        self.rules = {}          # rule id -> dict(desc=..., n=0, floor=..)
        self.t0 = time.time()
        self.battery = None
        self.pending = []        # constructs found in a shape no recogniser covers (undecided, never a violation)

    # ------------------------------------------------------------------
    def rule(self, rid, desc, floor=1):
        # `floor` is the instance count confirmed by hand on the pinned tree.  The guard is against *vacuity* (a rule that matches
        # nothing passes for ever), not against a refactoring that merges two sites into one: half the pinned count is required.
        self.rules[rid] = dict(desc=desc, n=0, floor=max(1, floor // 2) if floor > 1 else floor, pinned=floor)

    def ob(self, rule, func, node, ok, text=None, detail='', why='', nontrivial=True, key_extra=''):
        """record one obligation. func: loader.Func or str; node: ast node or None."""
        if rule not in self.rules:
            self.rules[rule] = dict(desc='', n=0, floor=0)
        self.rules[rule]['n'] += 1
        fq = getattr(func, 'fq', func) or ''
        if hasattr(func, 'site'):
            site = func.site(node) if node is not None else func.site()
            self.functions.add(fq)
        else:
            site = str(func)
        if text is None:
            text = short(node) if node is not None else ''
        text = norm_text(text)
        key = '|'.join([self.pid, rule, fq, text, norm_text(key_extra or '')])
        for prev in self.obligations:
            if prev['key'] == key and (prev['verdict'] == 'holds') == bool(ok):
                self.rules[rule]['n'] -= 1
                return ok
        o = dict(rule=rule, site=site, function=fq, text=text,
                 verdict='holds' if ok else 'violated', detail=norm_text(detail), why=norm_text(why),
                 key=key, nontrivial=bool(nontrivial))
        self.obligations.append(o)
        return ok

    def note(self, msg):
        self.notes.append(norm_text(msg))

    def undecided(self, rule, func, node, text, detail=''):
        """the construct is there but in a shape the rule has no recogniser for: not a verdict about the code.
        The run ends as ANALYSIS-ERROR (exit 2) unless some other obligation is violated."""
        fq = getattr(func, 'fq', func) or ''
        site = func.site(node) if hasattr(func, 'site') and node is not None else (func.site() if hasattr(func, 'site') else str(func))
        self.pending.append(f'{rule} at {site} in {fq}: {norm_text(text)} -- {norm_text(detail)}')
        if rule in self.rules:
            self.rules[rule]['n'] += 1
        return None

    def require(self, cond, msg):
        if not cond:
            raise AnalysisError(msg)
        return cond

    # ------------------------------------------------------------------
    def load_known(self):
        p = os.path.join(VERIF, 'known_findings.json')
        if not os.path.exists(p):
            return []
        with open(p) as f:
            data = json.load(f)
        return [e for e in data.get('findings', []) if e.get('property') == self.pid]

    def finalize(self, module, analysis_error=None, stats=None):
        wall = time.time() - self.t0
        known = [e for e in self.load_known() if e.get('kind') == 'known']
        known_keys = {e['key']: e for e in known}
        violated = [o for o in self.obligations if o['verdict'] == 'violated']
        new = [o for o in violated if o['key'] not in known_keys]
        listed = [o for o in violated if o['key'] in known_keys]
        floor_errors = []
        if analysis_error is None and not new and self.pending:
            analysis_error = 'shape not recognised (no verdict): ' + '; '.join(self.pending[:4])
        if analysis_error is None and not new:
            # floors guard against vacuous passes; a run that already found violations is not vacuous
            for rid, r in self.rules.items():
                if r['n'] < r['floor']:
                    floor_errors.append(f'rule {rid}: {r["n"]} instance(s) found, {r.get("pinned", r["floor"])} confirmed by hand '
                                        f'on the pinned tree, at least {r["floor"]} required ({r["desc"]})')
            if floor_errors:
                analysis_error = 'instance floor not met: ' + '; '.join(floor_errors)

        out_lines = []
        for o in listed:
            e = known_keys[o['key']]
            out_lines.append(f'KNOWN-FINDING: property={self.pid} {e.get("what", o["text"])} [{o["rule"]} at {o["site"]}]')
        replay_path = None
        dry = bool(os.environ.get('SA_NO_EVIDENCE'))
        if new:
            # violations already established stand even when a later rule could not be evaluated
            replay_path = os.path.join(VERIF, 'replay', f'{self.pid}.json')
            if not dry:
                os.makedirs(os.path.join(VERIF, 'replay'), exist_ok=True)
                with open(replay_path, 'w') as f:
                    json.dump(dict(property=self.pid, root=self.root, violations=new), f, indent=1)
            for o in new:
                out_lines.append(f'  violated {o["rule"]} at {o["site"]} in {o["function"]}: {o["text"]} -- {o["detail"]}')
                if o['why']:
                    out_lines.append(f'    necessity: {o["why"]}')
            out_lines.append(f'VIOLATION property={self.pid} replay={replay_path}')
        # stale known entries (listed but not firing) are reported, not fatal
        firing = {o['key'] for o in violated}
        for e in known:
            if e['key'] not in firing and analysis_error is None:
                out_lines.append(f'NOTE: known finding no longer fires (repaired or moved?): {e.get("what")}')
        for n in self.notes:
            out_lines.append('NOTE: ' + n)

        nontriv = {o['key'] for o in self.obligations if o['nontrivial']}
        discharged = sum(1 for o in self.obligations if o['verdict'] == 'holds')
        samples = [dict(rule=o['rule'], site=o['site'], function=o['function'], text=o['text'], verdict=o['verdict'],
                        detail=o['detail']) for o in self.obligations]
        cov = dict(
            explanation=(
                f'Static analysis of {self.root}/ombott (source parsed on this run; nothing imported or executed). '
                f'DECIDED: {norm_text(getattr(module, "DECIDED", ""))} '
                f'NOT DECIDED: {norm_text(getattr(module, "NOT_DECIDED", ""))}'),
            obligations=len(self.obligations),
            discharged=discharged,
            known_findings=len(listed),
            evaluations=max(len(self.obligations), 1) if self.obligations else 0,
            distinct_nontrivial=len(nontriv),
            rule=('one obligation per rule instance (call site, loop, return, store, raise, table entry) found in the '
                  'source by role; an obligation is non-trivial when its verdict needed a CFG / dataflow / escape / '
                  'partial-evaluation query rather than mere existence; distinct = distinct obligation keys '
                  '(property|rule|function|normalised construct|detail)'),
            samples=samples,
            rules={rid: dict(description=r['desc'], instances=r['n'], floor=r['floor']) for rid, r in self.rules.items()},
            functions_analysed=sorted(self.functions),
            checker_cmd=f'./check {self.pid} --tier {self.tier}',
            trusted_base=['CPython ast/symtable/re._parser parse the code as the interpreter does',
                          'the rule implementations under /verif/sa'] + list(getattr(module, 'TRUSTED', [])),
            notes=self.notes,
            unresolved=self.unresolved,
            exhaustive=False,
        )
        if stats:
            cov.update(stats)
        if self.battery is not None:
            cov['self_validation'] = self.battery
        if analysis_error is not None:
            cov['analysis_error'] = analysis_error
        ev = dict(property_id=self.pid, tier=self.tier, seed=int(self.seed), level='other', coverage=cov,
                  assumptions=list(getattr(module, 'ASSUMPTIONS', [])), wall_s=round(wall, 3),
                  violations=len(new))
        if not dry:
            os.makedirs(os.path.join(VERIF, 'evidence'), exist_ok=True)
            with open(os.path.join(VERIF, 'evidence', f'{self.pid}.json'), 'w') as f:
                json.dump(ev, f, indent=1, sort_keys=False)
                f.write('\n')

        print(f'{self.pid}: {len(self.obligations)} obligations, {discharged} hold, {len(listed)} known finding(s), '
              f'{len(new)} new violation(s); {len(self.functions)} functions; {wall:.2f}s [{self.tier}]')
        if os.environ.get('SA_VERBOSE'):
            for o in self.obligations:
                print(f"   [{o['verdict']:8}] {o['rule']:7} {o['site']:45} {o['text'][:90]}  {o['detail'][:80]}")
            print('   rule counts:', {k: v['n'] for k, v in self.rules.items()})
        for l in out_lines:
            print(l)
        if analysis_error is not None and not new:
            print(f'ANALYSIS-ERROR property={self.pid} {analysis_error}')
            return 2
        if analysis_error is not None:
            print(f'NOTE: a later rule could not be evaluated on this tree: {analysis_error}')
        return 1 if new else 0


class Sub:
    """Forward the obligations of a shared sub-check under another rule id (a premise one property borrows from another)."""
    def __init__(self, R, mapping=None, default=None, why=None, prefix_map=None):
        self._R, self._m, self._d, self._why, self._pm = R, mapping or {}, default, why, prefix_map or {}

    def _rule(self, rule):
        if rule in self._m:
            return self._m[rule]
        for k, v in self._pm.items():
            if rule.startswith(k):
                return v
        return self._d or rule

    def ob(self, rule, *a, **kw):
        if self._why:
            kw['why'] = self._why
        return self._R.ob(self._rule(rule), *a, **kw)

    def undecided(self, rule, *a, **kw):
        return self._R.undecided(self._rule(rule), *a, **kw)

    def __getattr__(self, k):
        return getattr(self._R, k)


class Only:
    """Run another property's whole check as a premise of this one, keeping only the obligations of the selected rules (re-filed under `to`); everything else
    that check reports - its rule declarations, floors, other obligations, known findings - is dropped here (it is reported by that property's own check)."""
    def __init__(self, R, rules, to, why=None):
        self._R, self._rules, self._to, self._why = R, set(rules), to, why

    def ob(self, rule, *a, **kw):
        if rule not in self._rules:
            return None
        if self._why:
            kw['why'] = self._why
        return self._R.ob(self._to, *a, **kw)

    def undecided(self, rule, *a, **kw):
        if rule in self._rules:
            return self._R.undecided(self._to, *a, **kw)
        return None

    def rule(self, *a, **kw):
        return None

    def require(self, cond, msg):
        # an anchor the other check needs and does not find is that check's business; here the premise is simply not evaluated
        if not cond:
            raise _PremiseUnavailable(msg)

    def __getattr__(self, k):
        return getattr(self._R, k)


class _PremiseUnavailable(Exception):
    pass


def run_premise(R, module, P, rules, to, why):
    """evaluate the obligations `rules` of another property's check as obligations `to` of this one"""
    try:
        module.check(P, Only(R, rules, to, why))
    except _PremiseUnavailable as e:
        R.undecided(to, getattr(module, 'ID', '?'), None, f'premise {sorted(rules)} of {getattr(module, "ID", "?")}', str(e))
