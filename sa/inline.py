"""Inlining of helper functions that are not part of the reference layout.

The rules are anchored at the functions of the analysed package (sa/pinned_functions.txt lists the layout the
rules were written against).  A refactoring that moves a few statements of an anchored function into a new
private helper must not change any verdict, so before the function tables are built every call of a *new*
helper (a function whose qualified name is not in that list) is replaced by the helper's body:

    x = helper(a, b)      ->   <params bound or substituted>; <body with locals renamed>; x = <returned expr>
    return helper(a)      ->   ...; return <returned expr>
    helper(a)             ->   ...
    yield from helper(a)  ->   ...  (generator helpers; their yields become yields of the caller)
    if helper(a) < n:     ->   _inlN = <...>; if _inlN < n:        (hoisted; unconditional positions only)

Only helpers whose returns can all be brought into tail position (guard clauses are nested into else-branches
first) and that have no nested defs, no *args/**kwargs, no global/nonlocal and no recursion are inlined; calls
in conditionally evaluated positions (while tests, lambdas, comprehensions, right operands of and/or, if-expression
arms) are left alone.  Whatever is not inlined is analysed the way it was before - as a separate function.
A helper all of whose uses were inlined is dropped from the tree, so its statements are analysed once, in the
context of their caller.  The transformation is applied to the in-memory syntax tree only.
"""
import ast
import copy
import os

_PINNED = None
_PINNED_META = None


def _load_pinned():
    global _PINNED, _PINNED_META
    if _PINNED is None:
        p = os.path.join(os.path.dirname(os.path.abspath(__file__)), 'pinned_functions.txt')
        meta = {}
        with open(p) as f:
            for l in f:
                l = l.rstrip('\n')
                if not l.strip():
                    continue
                parts = l.split('\t')
                meta[parts[0]] = (parts[1].split(',') if len(parts) > 1 and parts[1] else [], int(parts[2]) if len(parts) > 2 else 0,
                                  parts[3].split(',') if len(parts) > 3 and parts[3] else [])
        _PINNED, _PINNED_META = set(meta), meta


def pinned_functions():
    _load_pinned()
    return _PINNED


def pinned_callers(fq):
    """the functions that called `fq` in the reference layout"""
    _load_pinned()
    m = _PINNED_META.get(fq)
    return list(m[2]) if m else []


def undo_renames(modules, log=None):
    """A function of the reference layout that is gone while a new one with the same parameters (and a body of similar size) appeared
    in the same scope was renamed: the old name is restored in the in-memory tree (definition and every reference in the package), so
    that the rules find their anchor.  Only unambiguous pairs are taken; anything else is left alone (the anchor lookup then fails as an
    analysis error, never as a verdict)."""
    _load_pinned()
    renames = {}
    for mname, m in modules.items():
        scopes = [(None, [st for st in m.tree.body if isinstance(st, ast.FunctionDef)])]
        for st in m.tree.body:
            if isinstance(st, ast.ClassDef):
                scopes.append((st.name, [s2 for s2 in st.body if isinstance(s2, ast.FunctionDef)]))
        for cname, defs in scopes:
            prefix = f'{mname}:' + (f'{cname}.' if cname else '')
            pinned_here = {fq[len(prefix):] for fq in _PINNED if fq.startswith(prefix) and '.' not in fq[len(prefix):]}
            present = {d.name: d for d in defs}
            missing = sorted(pinned_here - set(present))
            new = sorted(n for n in present if n not in pinned_here and not (n.startswith('__') and n.endswith('__')))
            if not missing or not new:
                continue
            for old in missing:
                params, size = _PINNED_META[prefix + old][:2]
                cands = []
                for n in new:
                    d = present[n]
                    a = d.args
                    ps = [x.arg for x in a.posonlyargs + a.args] + ([a.vararg.arg] if a.vararg else []) + [x.arg for x in a.kwonlyargs] + ([a.kwarg.arg] if a.kwarg else [])
                    sz = sum(1 for x in ast.walk(d) if isinstance(x, ast.stmt)) - 1
                    if len(ps) == len(params) and abs(sz - size) <= max(3, size // 2):
                        cands.append((ps == params, n))
                exact = [n for (e, n) in cands if e]
                pick = exact if len(exact) == 1 else ([n for (_, n) in cands] if len(cands) == 1 else [])
                if len(pick) == 1 and pick[0] not in renames:
                    renames[pick[0]] = old
                    new.remove(pick[0])
    if not renames:
        return False
    for m in modules.values():
        for n in ast.walk(m.tree):
            if isinstance(n, ast.FunctionDef) and n.name in renames:
                n.name = renames[n.name]
            elif isinstance(n, ast.Name) and n.id in renames:
                n.id = renames[n.id]
            elif isinstance(n, ast.Attribute) and n.attr in renames:
                n.attr = renames[n.attr]
            elif isinstance(n, ast.alias) and n.name in renames and n.asname is None:
                n.name = renames[n.name]
    if log is not None:
        for k, v in sorted(renames.items()):
            log.append(f'function `{k}` taken for the renamed `{v}` of the reference layout')
    return True


def undo_moves(modules, log=None):
    """A top-level function or class of the reference layout that is gone from its module while exactly one other module of the package
    (possibly a new one) defines a top-level function / class of that name - which is not an entity of the reference layout there - was
    moved: the definition is put back into its reference module in the in-memory tree, together with imports for what it uses from the
    module it was found in; imports of the name are re-pointed.  Anything ambiguous is left alone (the anchor lookup then fails as an
    analysis error, never as a verdict)."""
    _load_pinned()
    ref_top = {}
    for fq in _PINNED:
        mod, _, qual = fq.partition(':')
        ref_top.setdefault(mod, set()).add(qual.split('.')[0])
    for cfq in _load_pinned_attrs()['classes']:          # classes without methods of their own (configuration holders)
        mod, _, cname = cfq.partition(':')
        ref_top.setdefault(mod, set()).add(cname)

    def absolute(m, level, module):
        if level == 0:
            return module
        base = m.name.split('.')
        if not getattr(m, 'is_pkg', False):
            base = base[:-1]
        if level > 1:
            base = base[: len(base) - (level - 1)]
        return '.'.join(base + ([module] if module else []))

    def top_bound(tree):
        out = set()
        for st in tree.body:
            if isinstance(st, (ast.FunctionDef, ast.AsyncFunctionDef, ast.ClassDef)):
                out.add(st.name)
            elif isinstance(st, ast.Import):
                out |= {a.asname or a.name.split('.')[0] for a in st.names}
            elif isinstance(st, ast.ImportFrom):
                out |= {a.asname or a.name for a in st.names}
            elif isinstance(st, (ast.Assign, ast.AnnAssign, ast.AugAssign)):
                for t in (st.targets if isinstance(st, ast.Assign) else [st.target]):
                    out |= {n.id for n in ast.walk(t) if isinstance(n, ast.Name)}
        return out
    any_move = False
    for modA in sorted(ref_top):
        if modA not in modules:
            continue
        A = modules[modA]
        present = {st.name for st in A.tree.body if isinstance(st, (ast.FunctionDef, ast.ClassDef))}
        for name in sorted(ref_top[modA] - present):
            cands = [(mB, st) for mB, m in modules.items() if mB != modA for st in m.tree.body
                     if isinstance(st, (ast.FunctionDef, ast.ClassDef)) and st.name == name and name not in ref_top.get(mB, ())]
            if len(cands) != 1:
                continue
            mB, node = cands[0]
            B = modules[mB]
            B.tree.body.remove(node)
            # what the moved definition uses from the module it was found in
            have = top_bound(A.tree) | {name}
            used = {n.id for n in ast.walk(node) if isinstance(n, ast.Name) and isinstance(n.ctx, ast.Load)}
            extra = []
            for st in B.tree.body:
                if isinstance(st, ast.Import):
                    keep = [a for a in st.names if (a.asname or a.name.split('.')[0]) in used - have]
                    if keep:
                        extra.append(ast.Import(names=keep))
                        have |= {a.asname or a.name.split('.')[0] for a in keep}
                elif isinstance(st, ast.ImportFrom):
                    keep = [a for a in st.names if (a.asname or a.name) in used - have]
                    if keep:
                        extra.append(ast.ImportFrom(module=absolute(B, st.level, st.module), names=keep, level=0))
                        have |= {a.asname or a.name for a in keep}
            own_B = set()
            for st in B.tree.body:
                if isinstance(st, (ast.FunctionDef, ast.ClassDef)):
                    own_B.add(st.name)
                elif isinstance(st, (ast.Assign, ast.AnnAssign)):
                    for t in (st.targets if isinstance(st, ast.Assign) else [st.target]):
                        own_B |= {n.id for n in ast.walk(t) if isinstance(n, ast.Name)}
            need_B = sorted((used - have) & own_B)
            if need_B:
                extra.append(ast.ImportFrom(module=mB, names=[ast.alias(name=n_, asname=None) for n_ in need_B], level=0))
            # the reference module no longer imports the name; the other module imports it if it still uses it
            for st in list(A.tree.body):
                if isinstance(st, ast.ImportFrom):
                    st.names = [a for a in st.names if not ((a.asname or a.name) == name)]
                    if not st.names:
                        A.tree.body.remove(st)
            pos = 0
            for i_, st in enumerate(A.tree.body):
                if isinstance(st, (ast.Import, ast.ImportFrom)) or (i_ == 0 and isinstance(st, ast.Expr) and isinstance(st.value, ast.Constant)):
                    pos = i_ + 1
            for x in extra:
                ast.fix_missing_locations(ast.copy_location(x, node))
            A.tree.body[pos:pos] = extra
            node._found_in = getattr(B, 'relpath', None)
            for sub in ast.walk(node):
                if isinstance(sub, (ast.FunctionDef, ast.AsyncFunctionDef, ast.ClassDef, ast.Lambda)):
                    sub._found_in = node._found_in
            A.tree.body.append(node)
            if any(isinstance(n, ast.Name) and n.id == name for n in ast.walk(B.tree)):
                imp = ast.ImportFrom(module=modA, names=[ast.alias(name=name, asname=None)], level=0)
                B.tree.body.insert(0, ast.fix_missing_locations(ast.copy_location(imp, node)))
            # every other import of the name from the module it was found in now points at the reference module
            for mC, C in modules.items():
                if mC in (modA, mB):
                    continue
                for st in list(C.tree.body):
                    if isinstance(st, ast.ImportFrom) and absolute(C, st.level, st.module) == mB and any(a.name == name for a in st.names):
                        moved_al = [a for a in st.names if a.name == name]
                        st.names = [a for a in st.names if a.name != name]
                        imp = ast.ImportFrom(module=modA, names=moved_al, level=0)
                        C.tree.body.insert(C.tree.body.index(st), ast.fix_missing_locations(ast.copy_location(imp, st)))
                        if not st.names:
                            C.tree.body.remove(st)
            any_move = True
            if log is not None:
                log.append(f'{mB}:{name} taken for {modA}:{name} of the reference layout (moved between modules)')
    return any_move


def undo_method_aliases(modules, log=None):
    """`class C: m = staticmethod(f)` (or classmethod / a plain alias) where `m` is a method of the reference layout and `f` a new module-level function of the
    same module: the function's definition is read as the method again (the alias is replaced by the def, under the method's name and with the decorator)."""
    _load_pinned()
    done = False
    for mname, m in modules.items():
        funcs = {st.name: st for st in m.tree.body if isinstance(st, ast.FunctionDef)}
        for c in [st for st in m.tree.body if isinstance(st, ast.ClassDef)]:
            have = {st.name for st in c.body if isinstance(st, (ast.FunctionDef, ast.AsyncFunctionDef))}
            for i, st in enumerate(list(c.body)):
                if not (isinstance(st, ast.Assign) and len(st.targets) == 1 and isinstance(st.targets[0], ast.Name)):
                    continue
                meth = st.targets[0].id
                if f'{mname}:{c.name}.{meth}' not in _PINNED or meth in have:
                    continue
                v, deco = st.value, None
                if isinstance(v, ast.Call) and isinstance(v.func, ast.Name) and v.func.id in ('staticmethod', 'classmethod') and len(v.args) == 1 and not v.keywords:
                    deco, v = v.func.id, v.args[0]
                if not (isinstance(v, ast.Name) and v.id in funcs and f'{mname}:{v.id}' not in _PINNED):
                    continue
                fdef = copy.deepcopy(funcs[v.id])
                fdef.name = meth
                fdef.decorator_list = ([ast.copy_location(ast.Name(id=deco, ctx=ast.Load()), st)] if deco else []) + fdef.decorator_list
                c.body[c.body.index(st)] = ast.fix_missing_locations(fdef)
                # the module-level function goes when nothing else mentions it
                own_ = {id(x) for x in ast.walk(funcs[v.id])}
                used = any(isinstance(n, ast.Name) and n.id == v.id and id(n) not in own_ for m2 in modules.values() for n in ast.walk(m2.tree))
                if not used and funcs[v.id] in m.tree.body:
                    m.tree.body.remove(funcs[v.id])
                done = True
                if log is not None:
                    log.append(f'{mname}:{c.name}.{meth} = {deco or ""}({v.id}): the function is read as the method of the reference layout')
    return done


_PINNED_ATTRS = None


def _load_pinned_attrs():
    global _PINNED_ATTRS
    if _PINNED_ATTRS is None:
        import json
        p = os.path.join(os.path.dirname(os.path.abspath(__file__)), 'pinned_attrs.json')
        try:
            with open(p) as f:
                _PINNED_ATTRS = json.load(f)
        except OSError:
            _PINNED_ATTRS = {'classes': {}, 'modules': {}}
    return _PINNED_ATTRS


def undo_attr_renames(modules, log=None):
    """A private attribute of a class of the reference layout (a slot, an instance attribute, a class-level name) that is gone while a new one with exactly the
    same usage signature - the same stores / loads in the same methods, slot or not - appeared in that class was renamed: the old name is restored in the class
    (every `<x>.new` inside the class body, the `__slots__` entry, string constants equal to the new name in the class's module that name the slot, e.g.
    `store_name='..'`) and, when the new name stands for one old name only, everywhere else in the package.  The same for module-level variables.  Anything
    that does not match one-to-one is left alone."""
    from .attrsig import class_signatures, module_signatures
    ref = _load_pinned_attrs()
    done = False
    new_to_old = {}
    plans = []
    for mname, m in modules.items():
        cur = class_signatures(m.tree)
        for cname, csig in cur.items():
            rsig = ref['classes'].get(f'{mname}:{cname}')
            if not rsig:
                continue
            missing = [a for a in rsig if a not in csig]
            new = [a for a in csig if a not in rsig]
            if not missing or not new:
                continue
            for old in missing:
                cands = [n for n in new if csig[n] == rsig[old]]
                # the signature of the other attributes may itself contain renamed method names: equality is required as it is
                others = [o for o in missing if rsig[o] == rsig[old]]
                if len(cands) == 1 and len(others) == 1:
                    plans.append((mname, cname, cands[0], old))
                    new_to_old.setdefault(cands[0], set()).add(old)
    for (mname, cname, newn, old) in plans:
        m = modules[mname]
        cnode = [c for c in m.tree.body if isinstance(c, ast.ClassDef) and c.name == cname][0]
        for n in ast.walk(cnode):
            if isinstance(n, ast.Attribute) and n.attr == newn:
                n.attr = old
            elif isinstance(n, ast.Constant) and n.value == newn:
                n.value = old
            elif isinstance(n, ast.Name) and n.id == newn and isinstance(getattr(n, 'ctx', None), (ast.Store, ast.Load)) and any(
                    isinstance(st, (ast.Assign, ast.AnnAssign)) and n in ast.walk(st) for st in cnode.body):
                n.id = old
        # decorators / helper calls of this module that name the slot as a string (store_name='_ts_props')
        for n in ast.walk(m.tree):
            if isinstance(n, ast.keyword) and isinstance(n.value, ast.Constant) and n.value.value == newn:
                n.value.value = old
        unique = len(new_to_old[newn]) == 1
        if unique:
            for m2 in modules.values():
                for n in ast.walk(m2.tree):
                    if isinstance(n, ast.Attribute) and n.attr == newn:
                        n.attr = old
                    elif isinstance(n, ast.keyword) and isinstance(n.value, ast.Constant) and n.value.value == newn:
                        n.value.value = old
        done = True
        if log is not None:
            log.append(f'{mname}:{cname}.{newn} taken for the renamed attribute `{old}` of the reference layout')
    # module-level variables
    for mname, m in modules.items():
        rsig = ref['modules'].get(mname)
        if not rsig:
            continue
        csig = module_signatures(m.tree)
        missing = [a for a in rsig if a not in csig]
        new = [a for a in csig if a not in rsig]
        for old in missing:
            cands = [n for n in new if csig[n] == rsig[old] and csig[n]]
            others = [o for o in missing if rsig[o] == rsig[old]]
            if len(cands) == 1 and len(others) == 1:
                newn = cands[0]
                for n in ast.walk(m.tree):
                    if isinstance(n, ast.Name) and n.id == newn:
                        n.id = old
                for m2 in modules.values():
                    for n in ast.walk(m2.tree):
                        if isinstance(n, ast.alias) and n.name == newn:
                            n.name = old
                done = True
                if log is not None:
                    log.append(f'{mname}:{newn} taken for the renamed module variable `{old}` of the reference layout')
    return done


LOOPS = (ast.For, ast.While, ast.AsyncFor)
DEFS = (ast.FunctionDef, ast.AsyncFunctionDef, ast.ClassDef)


def _walk_no_defs(node):
    if isinstance(node, DEFS + (ast.Lambda,)):
        yield node
        return
    stack = [node]
    first = True
    while stack:
        n = stack.pop()
        if not first and isinstance(n, DEFS + (ast.Lambda,)):
            continue
        first = False
        yield n
        stack.extend(ast.iter_child_nodes(n))


def _contains_return(st):
    if isinstance(st, DEFS):
        return False
    return any(isinstance(n, ast.Return) for n in _walk_no_defs(st))


def _always_leaves(body):
    if not body:
        return False
    last = body[-1]
    if isinstance(last, (ast.Return, ast.Raise)):
        return True
    if isinstance(last, ast.If):
        return bool(last.orelse) and _always_leaves(last.body) and _always_leaves(last.orelse)
    return False


def _tailify(stmts):
    """nest what follows an `if` that returns into the branches that fall through; None when impossible"""
    out = []
    for i, st in enumerate(stmts):
        rest = stmts[i + 1:]
        if rest and _contains_return(st):
            if not isinstance(st, ast.If):
                return None
            new = copy.copy(st)
            b = list(st.body) if _always_leaves(st.body) else list(st.body) + copy.deepcopy(rest)
            o = list(st.orelse) if (st.orelse and _always_leaves(st.orelse)) else list(st.orelse) + copy.deepcopy(rest)
            new.body = _tailify(b)
            new.orelse = _tailify(o)
            if new.body is None or new.orelse is None:
                return None
            out.append(new)
            return out
        if isinstance(st, ast.If) and _contains_return(st):
            new = copy.copy(st)
            new.body = _tailify(list(st.body))
            new.orelse = _tailify(list(st.orelse)) if st.orelse else []
            if new.body is None or new.orelse is None:
                return None
            out.append(new)
            continue
        out.append(st)
    return out


def _returns_all_tail(body, tail=True):
    """every Return is the last statement of a tail block"""
    for i, st in enumerate(body):
        is_last = tail and i == len(body) - 1
        if isinstance(st, ast.Return):
            if not is_last:
                return False
        elif isinstance(st, ast.If):
            if not _returns_all_tail(st.body, is_last) or not _returns_all_tail(st.orelse, is_last):
                return False
        elif isinstance(st, ast.Try):
            if st.finalbody or st.orelse:
                if _contains_return(st):
                    return False
            else:
                if not _returns_all_tail(st.body, is_last):
                    return False
                for h in st.handlers:
                    if not _returns_all_tail(h.body, is_last):
                        return False
        elif isinstance(st, (ast.With,)):
            if not _returns_all_tail(st.body, is_last):
                return False
        elif _contains_return(st):
            return False
    return True


def _close_paths(body):
    """make the implicit `return None` at the end of fall-through tail paths explicit"""
    if not body:
        return [ast.Return(value=ast.Constant(value=None))]
    last = body[-1]
    if isinstance(last, (ast.Return, ast.Raise)):
        return body
    if isinstance(last, ast.If) and _contains_return(last):
        last.body = _close_paths(last.body)
        last.orelse = _close_paths(last.orelse)
        return body
    if isinstance(last, ast.Try) and _contains_return(last):
        last.body = _close_paths(last.body)
        for h in last.handlers:
            h.body = _close_paths(h.body)
        return body
    if isinstance(last, ast.With) and _contains_return(last):
        last.body = _close_paths(last.body)
        return body
    return body + [ast.Return(value=ast.Constant(value=None))]


def _final_loop_returns_to_breaks(body):
    """a bare `return` at the own level (through ifs) of a loop that ends the function is a `break` (no else-branch on the loop)"""
    tail = list(body)
    while tail and isinstance(tail[-1], ast.Return) and (tail[-1].value is None or (isinstance(tail[-1].value, ast.Constant) and tail[-1].value.value is None)):
        tail.pop()
    if not tail or not isinstance(tail[-1], (ast.For, ast.While)) or tail[-1].orelse:
        return body

    def conv(stmts):
        out = []
        for st in stmts:
            if isinstance(st, ast.Return) and (st.value is None or (isinstance(st.value, ast.Constant) and st.value.value is None)):
                out.append(ast.copy_location(ast.Break(), st))
            elif isinstance(st, ast.If):
                st.body = conv(st.body)
                st.orelse = conv(st.orelse)
                out.append(st)
            else:
                out.append(st)
        return out
    tail[-1].body = conv(tail[-1].body)
    return tail


def _fold_param_tests(fn, states):
    """copy of the function with the tests on the parameters in `states` (name -> 'none' | 'notnone') decided and the dead branches
    removed; None when nothing was decided"""
    fn = copy.deepcopy(fn)
    hit = [False]

    def verdict(t):
        if isinstance(t, ast.UnaryOp) and isinstance(t.op, ast.Not):
            v = verdict(t.operand)
            return None if v is None else (not v)
        if isinstance(t, ast.Compare) and len(t.ops) == 1 and isinstance(t.left, ast.Name) and t.left.id in states \
                and isinstance(t.comparators[0], ast.Constant) and t.comparators[0].value is None and isinstance(t.ops[0], (ast.Is, ast.IsNot)):
            isnone = states[t.left.id] == 'none'
            return isnone if isinstance(t.ops[0], ast.Is) else not isnone
        if isinstance(t, ast.Name) and states.get(t.id) in ('none', 'false'):
            return False
        if isinstance(t, ast.Name) and states.get(t.id) == 'true':
            return True
        if isinstance(t, ast.BoolOp):
            vs = [verdict(v) for v in t.values]
            if isinstance(t.op, ast.And):
                if any(v is False for v in vs):
                    return False
                if all(v is True for v in vs):
                    return True
            else:
                if any(v is True for v in vs):
                    return True
                if all(v is False for v in vs):
                    return False
        return None

    def reduce_test(t):
        """a and/or test with the decided operands removed (the undecided rest decides)"""
        if isinstance(t, ast.BoolOp):
            drop = True if isinstance(t.op, ast.And) else False
            keep = [v for v in t.values if verdict(v) is not drop]
            if len(keep) < len(t.values) and keep:
                hit[0] = True
                return keep[0] if len(keep) == 1 else ast.copy_location(ast.BoolOp(op=t.op, values=keep), t)
        return t

    def fold(stmts):
        out = []
        for st in stmts:
            if isinstance(st, (ast.If, ast.While)) and verdict(st.test) is None:
                st.test = reduce_test(st.test)
            for field in ('body', 'orelse', 'finalbody'):
                sub = getattr(st, field, None)
                if isinstance(sub, list) and sub and isinstance(sub[0], ast.stmt) and not isinstance(st, DEFS):
                    setattr(st, field, fold(sub))
            if isinstance(st, ast.Try):
                for h in st.handlers:
                    h.body = fold(h.body) or [ast.copy_location(ast.Pass(), st)]
            if isinstance(st, ast.If):
                v = verdict(st.test)
                if v is not None:
                    hit[0] = True
                    out.extend(st.body if v else st.orelse)
                    if out and isinstance(out[-1], (ast.Return, ast.Raise, ast.Break, ast.Continue)):
                        break          # what follows in this block is dead
                    continue
                if not st.body:
                    st.body = [ast.copy_location(ast.Pass(), st)]
            elif isinstance(st, (ast.For, ast.While, ast.With)) and not st.body:
                st.body = [ast.copy_location(ast.Pass(), st)]
            out.append(st)
        return out
    fn.body = fold(fn.body) or [ast.Pass()]
    return fn if hit[0] else None


def _search_loop_form(body, rname='_found'):
    """PRE; <loop that returns from inside>; POST   ->   PRE; <loop: `return X` -> `rname = X; break`> else: POST'; return rname

    (POST' is POST with every path closed by `rname = <returned value>`).  Only for a loop without else-branch and without
    breaks of its own, whose returns sit under plain ifs; None when the body does not have this shape."""
    hot = [i for i, st in enumerate(body) if _contains_return(st)]
    loops = [i for i in hot if isinstance(body[i], (ast.For, ast.While))]
    if len(loops) != 1 or hot[0] != loops[0]:
        return None
    i = loops[0]
    loop = body[i]
    if loop.orelse:
        return None

    def level(stmts):
        # statements of the loop's own level (through ifs)
        for st in stmts:
            yield st
            if isinstance(st, ast.If):
                yield from level(st.body)
                yield from level(st.orelse)
    own = list(level(loop.body))
    if any(isinstance(st, ast.Break) for st in own):
        return None
    for st in own:
        if not isinstance(st, (ast.If, ast.Return)) and _contains_return(st):
            return None
    post = _tailify(copy.deepcopy(body[i + 1:]))
    if post is None or not _returns_all_tail(post):
        return None
    post = _close_paths(post)

    def assign(value, at):
        return ast.copy_location(ast.Assign(targets=[ast.Name(id=rname, ctx=ast.Store())], value=value or ast.Constant(value=None)), at)

    def in_loop(stmts):
        out = []
        for st in stmts:
            if isinstance(st, ast.Return):
                out += [assign(st.value, st), ast.copy_location(ast.Break(), st)]
            elif isinstance(st, ast.If):
                st = copy.copy(st)
                st.body = in_loop(st.body)
                st.orelse = in_loop(st.orelse)
                out.append(st)
            else:
                out.append(st)
        return out

    def in_post(stmts):
        out = []
        for st in stmts:
            if isinstance(st, ast.Return):
                out.append(assign(st.value, st))
            elif isinstance(st, (ast.If, ast.With, ast.Try)) and _contains_return(st):
                st = copy.copy(st)
                st.body = in_post(st.body)
                if isinstance(st, ast.If):
                    st.orelse = in_post(st.orelse)
                if isinstance(st, ast.Try):
                    hs = []
                    for h in st.handlers:
                        h = copy.copy(h)
                        h.body = in_post(h.body)
                        hs.append(h)
                    st.handlers = hs
                out.append(st)
            else:
                out.append(st)
        return out
    new_loop = copy.copy(loop)
    new_loop.body = in_loop(copy.deepcopy(loop.body))
    new_loop.orelse = in_post(post)
    ret = ast.copy_location(ast.Return(value=ast.Name(id=rname, ctx=ast.Load())), body[-1])
    out = list(body[:i]) + [new_loop, ret]
    for st in out:
        ast.fix_missing_locations(st)
    return out


class _Helper:
    def __init__(self, modname, qual, node, cls_name):
        self.modname = modname
        self.qual = qual
        self.node = node
        self.cls_name = cls_name
        self.kind = 'function'
        for d in node.decorator_list:
            if isinstance(d, ast.Name) and d.id in ('staticmethod', 'classmethod'):
                self.kind = d.id
            else:
                self.kind = None
        if cls_name and self.kind == 'function':
            self.kind = 'method'
        self.is_gen = any(isinstance(n, (ast.Yield, ast.YieldFrom)) for st in node.body for n in _walk_no_defs(st))
        self.body = None
        self.raw_body = None
        self.tail_ok = False
        self.ok = self._prepare()

    def _prepare(self):
        fn = self.node
        if self.kind is None or isinstance(fn, ast.AsyncFunctionDef):
            return False
        a = fn.args
        if a.vararg or a.kwarg or a.posonlyargs:
            return False
        self.nested = [n for n in ast.walk(fn) if n is not fn and isinstance(n, DEFS)]
        for n in ast.walk(fn):
            if n is not fn and isinstance(n, DEFS) and not (isinstance(n, ast.FunctionDef) and n in fn.body):
                return False        # closures are accepted only as plain `def` statements of the helper's own body (factories)
            if isinstance(n, (ast.Global, ast.Nonlocal)):
                return False
            if isinstance(n, ast.Call):
                f = n.func
                if (isinstance(f, ast.Name) and f.id == fn.name) or \
                        (isinstance(f, ast.Attribute) and f.attr == fn.name and isinstance(f.value, ast.Name) and (f.value.id in ('self', 'cls') or f.value.id[:1].isupper())):
                    return False        # (self-)recursive
        body = list(fn.body)
        if body and isinstance(body[0], ast.Expr) and isinstance(body[0].value, ast.Constant) and isinstance(body[0].value.value, str):
            body = body[1:]
        if not body:
            body = [ast.Pass()]
        # in `return helper(..)` / `raise helper(..)` position the returns of the helper may sit anywhere (loops included)
        raw = copy.deepcopy(body)
        if not isinstance(raw[-1], (ast.Return, ast.Raise)):
            raw = raw + [ast.Return(value=ast.Constant(value=None))]
        self.raw_body = raw
        self.tail_ok = True
        self.extra_stored = set()
        body = _final_loop_returns_to_breaks(copy.deepcopy(body))
        tailed = _tailify(copy.deepcopy(body))
        if (tailed is None or not _returns_all_tail(tailed)) and not self.is_gen:
            # a search loop that returns its hit: brought to single-exit form
            rname = '_found'
            alt = _search_loop_form(copy.deepcopy(body), rname)
            if alt is not None:
                tailed = _tailify(alt)
                self.extra_stored.add(rname)
        body = tailed
        if body is None or not _returns_all_tail(body):
            self.tail_ok = False
            self.body = None
        else:
            self.body = _close_paths(body)
        self.params = [x.arg for x in a.args] + [x.arg for x in a.kwonlyargs]
        self.defaults = {}
        pos = [x.arg for x in a.args]
        for name, d in zip(pos[len(pos) - len(a.defaults):], a.defaults):
            self.defaults[name] = d
        for x, d in zip(a.kwonlyargs, a.kw_defaults):
            if d is not None:
                self.defaults[x.arg] = d
        self.npos = len(pos)
        stored = set()
        for n in ast.walk(fn):
            if isinstance(n, ast.Name) and isinstance(n.ctx, (ast.Store, ast.Del)):
                stored.add(n.id)
            elif isinstance(n, ast.ExceptHandler) and n.name:
                stored.add(n.name)
            elif isinstance(n, ast.arg) and n.arg not in self.params:
                if not any(n in ast.walk(d.args) for d in self.nested):
                    return False          # lambda parameters: keep it simple
        inner_params = {a_.arg for d in self.nested for a_ in ast.walk(d.args) if isinstance(a_, ast.arg)}
        for d in self.nested:
            stored.add(d.name)
        if inner_params & (stored | set(self.params)):
            return False
        self.stored = stored | self.extra_stored
        return True


def _simple_arg(e):
    if isinstance(e, ast.Constant):
        return True
    while isinstance(e, ast.Attribute):
        e = e.value
    return isinstance(e, ast.Name)


class _Subst(ast.NodeTransformer):
    def __init__(self, rename, subst):
        self.rename = rename
        self.subst = subst

    def visit_Name(self, n):
        if n.id in self.subst and isinstance(n.ctx, ast.Load):
            return ast.copy_location(copy.deepcopy(self.subst[n.id]), n)
        if n.id in self.rename:
            return ast.copy_location(ast.Name(id=self.rename[n.id], ctx=n.ctx), n)
        return n

    def visit_ExceptHandler(self, n):
        self.generic_visit(n)
        if n.name and n.name in self.rename:
            n.name = self.rename[n.name]
        return n

    def visit_FunctionDef(self, n):
        self.generic_visit(n)
        if n.name in self.rename:
            n.name = self.rename[n.name]
        return n


class Inliner:
    def __init__(self, modules, pinned=None, log=None):
        self.modules = modules          # name -> object with .tree
        self.pinned = pinned_functions() if pinned is None else pinned
        self.counter = 0
        self.log = log if log is not None else []
        self.inlined_sites = {}         # helper key -> count
        self.helpers = {}               # (modname, cls or None, name) -> _Helper
        self.records = {}               # id(function node) -> {local name: (modname, class name)}: locals holding an instance of a new record class
        self._cur_vars = {}
        self._cur_fn = None
        self._special = {}
        self._made_prefixes = set()
        self.ext_helpers = {}           # reference functions that gained optional parameters
        self._rec_funcs = {}            # id(function node) -> function node

    # ---------------------------------------------------------------- discovery
    def discover(self):
        for mname, m in self.modules.items():
            for st in m.tree.body:
                if isinstance(st, ast.FunctionDef):
                    fq = f'{mname}:{st.name}'
                    # a nested function of the reference layout moved to module level keeps its identity (not a new helper)
                    relocated = any(p_.startswith(mname + ':') and p_.endswith('.' + st.name) for p_ in self.pinned)
                    if fq not in self.pinned and not relocated:
                        self.helpers[(mname, None, st.name)] = _Helper(mname, st.name, st, None)
                    elif fq in self.pinned:
                        self._note_extended(mname, None, st, fq)
                elif isinstance(st, ast.ClassDef):
                    for s2 in st.body:
                        if isinstance(s2, ast.FunctionDef):
                            fq = f'{mname}:{st.name}.{s2.name}'
                            if fq not in self.pinned and not (s2.name.startswith('__') and s2.name.endswith('__')):
                                # a new method of a class that is itself new is not an extracted helper
                                self.helpers[(mname, st.name, s2.name)] = _Helper(mname, f'{st.name}.{s2.name}', s2, st.name)
                            elif fq in self.pinned:
                                self._note_extended(mname, st.name, s2, fq)
        return {k: h for k, h in self.helpers.items() if h.ok}

    def _note_extended(self, mname, cls_name, node, fq):
        """a function of the reference layout that gained optional parameters: a call that passes one of them cannot be a call of the
        reference layout - it is the reuse of the function's body by a new caller, and is inlined there like a new helper (the function
        itself stays, read with the new parameters at their defaults)"""
        _load_pinned()
        ref = set(_PINNED_META.get(fq, ([], 0, []))[0])
        a = node.args
        if a.vararg or a.kwarg or not ref:
            return
        cur = [x.arg for x in a.posonlyargs + a.args + a.kwonlyargs]
        new = [p for p in cur if p not in ref]
        if not new or not ref <= set(cur):
            return
        h = _Helper(mname, f'{cls_name}.{node.name}' if cls_name else node.name, node, cls_name)
        if not h.ok or any(p not in h.defaults for p in new):
            return
        h.new_params = new
        self.ext_helpers[(mname, cls_name, node.name)] = h

    def _deforward(self):
        """A function R of the reference layout whose whole body now is `return H(<its parameters, in order>)` / `yield from H(..)` with H a new module-level
        function forwards to H; a direct call `H(x0, x1, ..)` elsewhere in the package is the call `x0.R(x1, ..)` (R a method / classmethod) or `R(x0, ..)` it
        replaces - the anchored call is restored, and R's body gets H expanded as usual."""
        changed = False
        fwd = {}
        for mname, m in self.modules.items():
            funcs = {st.name: st for st in m.tree.body if isinstance(st, ast.FunctionDef)}
            scopes = [(None, [st for st in m.tree.body if isinstance(st, ast.FunctionDef)])]
            scopes += [(c.name, [s2 for s2 in c.body if isinstance(s2, ast.FunctionDef)]) for c in m.tree.body if isinstance(c, ast.ClassDef)]
            for cname, defs in scopes:
                for d in defs:
                    fq = f'{mname}:{cname}.{d.name}' if cname else f'{mname}:{d.name}'
                    if fq not in self.pinned:
                        continue
                    body = [b for b in d.body if not (isinstance(b, ast.Expr) and isinstance(b.value, ast.Constant) and isinstance(b.value.value, str))]
                    if len(body) != 1:
                        continue
                    st = body[0]
                    call = None
                    if isinstance(st, ast.Return) and isinstance(st.value, ast.Call):
                        call = st.value
                    elif isinstance(st, ast.Expr) and isinstance(st.value, ast.YieldFrom) and isinstance(st.value.value, ast.Call):
                        call = st.value.value
                    if call is None or not isinstance(call.func, ast.Name) or call.func.id not in funcs or f'{mname}:{call.func.id}' in self.pinned:
                        continue
                    params = [a.arg for a in d.args.args + d.args.kwonlyargs]
                    args = [a.id if isinstance(a, ast.Name) else None for a in call.args] + [k.value.id if isinstance(k.value, ast.Name) and k.arg else None for k in call.keywords]
                    if args != params or d.args.vararg or d.args.kwarg or d.args.kwonlyargs or call.keywords:
                        continue
                    hdef = funcs[call.func.id]
                    if len(hdef.args.args) + len(hdef.args.kwonlyargs) != len(params) or hdef.args.vararg or hdef.args.kwarg:
                        continue          # H takes more than R hands on: a direct call of H may use what R cannot express
                    is_method = cname is not None and not any(isinstance(x, ast.Name) and x.id == 'staticmethod' for x in d.decorator_list)
                    fwd[(mname, call.func.id)] = (cname, d.name, is_method, d)
        if not fwd:
            return False
        for m in self.modules.values():
            imported = {}
            for st in m.tree.body:
                if isinstance(st, ast.ImportFrom):
                    for a in st.names:
                        imported[a.asname or a.name] = a.name
            for fn in [n for n in ast.walk(m.tree) if isinstance(n, ast.FunctionDef)]:
                for call in [n for n in ast.walk(fn) if isinstance(n, ast.Call) and isinstance(n.func, ast.Name)]:
                    hname = imported.get(call.func.id, call.func.id)
                    hits = [(k, v) for k, v in fwd.items() if k[1] == hname]
                    if len(hits) != 1:
                        continue
                    (hm, _), (cname, rname, is_method, rdef) = hits[0]
                    if fn is rdef or call.keywords or any(isinstance(a, ast.Starred) for a in call.args):
                        continue
                    if len(call.args) != len(rdef.args.args) + len(rdef.args.kwonlyargs):
                        continue
                    if is_method:
                        if not call.args or not _simple_arg(call.args[0]):
                            continue
                        new = ast.Call(func=ast.Attribute(value=call.args[0], attr=rname, ctx=ast.Load()), args=call.args[1:], keywords=[])
                    elif cname is None and hm == m.name if hasattr(m, 'name') else False:
                        new = ast.Call(func=ast.Name(id=rname, ctx=ast.Load()), args=call.args, keywords=[])
                    else:
                        continue
                    ast.fix_missing_locations(ast.copy_location(new, call))
                    if _replace_node(fn, call, new):
                        changed = True
                        self.log.append(f'{getattr(m, "name", "?")}:{fn.name}: call of `{hname}` read as the call of `{rname}` that forwards to it')
        return changed

    def _residualise_extended_calls(self):
        """`f(x, flag=True)` where the reference function f gained the optional parameter `flag` and, with the flag decided, is `if C: return E` followed by exactly
        what f does with the flag at its default: the call is `E if C else f(x)` - the reference behaviour stays a call of f"""
        changed = False
        for (mname, cls_name, name), h in self.ext_helpers.items():
            dstates = {}
            for p in h.new_params:
                d = h.defaults.get(p)
                if isinstance(d, ast.Constant) and p not in h.stored:
                    dstates[p] = 'none' if d.value is None else ('true' if d.value is True else ('false' if d.value is False else 'notnone'))
            if set(dstates) != set(h.new_params):
                continue
            dflt = _fold_param_tests(h.node, dstates) or h.node

            def body_of(fn):
                b = list(fn.body)
                if b and isinstance(b[0], ast.Expr) and isinstance(b[0].value, ast.Constant) and isinstance(b[0].value.value, str):
                    b = b[1:]
                return b
            bd = [ast.dump(x) for x in body_of(dflt)]
            for m in self.modules.values():
                for call in [n for n in ast.walk(m.tree) if isinstance(n, ast.Call)]:
                    f = call.func
                    if not ((isinstance(f, ast.Name) and f.id == name and cls_name is None) or
                            (isinstance(f, ast.Attribute) and f.attr == name and cls_name is not None and isinstance(f.value, ast.Name) and f.value.id in ('self', 'cls'))):
                        continue
                    kws = {k.arg: k.value for k in call.keywords if k.arg}
                    passed = [p for p in h.new_params if p in kws]
                    if not passed or not all(isinstance(kws[p], ast.Constant) for p in passed) or any(isinstance(a, ast.Starred) for a in call.args):
                        continue
                    if not all(_simple_arg(a) for a in call.args) or not all(_simple_arg(v) for k, v in kws.items() if k not in passed):
                        continue
                    states = dict(dstates)
                    for p in passed:
                        v = kws[p].value
                        states[p] = 'none' if v is None else ('true' if v is True else ('false' if v is False else 'notnone'))
                    fn2 = _fold_param_tests(h.node, states)
                    if fn2 is None:
                        continue
                    b2 = body_of(fn2)
                    k = len(b2) - len(bd)
                    if k < 1 or [ast.dump(x) for x in b2[k:]] != bd:
                        continue
                    guards = b2[:k]
                    if not all(isinstance(g_, ast.If) and not g_.orelse and len(g_.body) == 1 and isinstance(g_.body[0], ast.Return) and g_.body[0].value is not None
                               for g_ in guards):
                        continue
                    pos = [a.arg for a in h.node.args.args]
                    if h.kind in ('method', 'classmethod'):
                        pos = pos[1:]
                    bind = dict(zip(pos, call.args))
                    bind.update({k_: v_ for k_, v_ in kws.items() if k_ not in passed})
                    free = {n.id for g_ in guards for n in ast.walk(g_) if isinstance(n, ast.Name)}
                    if not (free & set(h.params)) <= set(bind):
                        continue
                    sub = _Subst({}, bind)
                    resid = copy.deepcopy(call)
                    resid.keywords = [k_ for k_ in resid.keywords if k_.arg not in passed]
                    expr = resid
                    for g_ in reversed(guards):
                        expr = ast.IfExp(test=sub.visit(copy.deepcopy(g_.test)), body=sub.visit(copy.deepcopy(g_.body[0].value)), orelse=expr)
                    ast.fix_missing_locations(ast.copy_location(expr, call))
                    if _replace_node(m.tree, call, expr):
                        changed = True
                        self.log.append(f'{mname}:{name}(.., {", ".join(passed)}=..): the call is `<early result> if <test> else {name}(..)`, the reference behaviour stays a call')
        return changed

    def _specialise_extended(self):
        """the reference functions that gained optional parameters, read with those parameters at their (constant) defaults - unless a
        remaining reference passes one of them"""
        changed = False
        for (mname, cls_name, name), h in self.ext_helpers.items():
            passed = False
            for m in self.modules.values():
                for c in ast.walk(m.tree):
                    if isinstance(c, ast.Call) and any(kw.arg in h.new_params for kw in c.keywords) and \
                            any((isinstance(x, ast.Name) and x.id == name) or (isinstance(x, ast.Attribute) and x.attr == name) for x in ast.walk(c)):
                        passed = True
            if passed:
                continue
            states = {}
            for p in h.new_params:
                d = h.defaults.get(p)
                if isinstance(d, ast.Constant) and p not in h.stored:
                    states[p] = 'none' if d.value is None else ('true' if d.value is True else ('false' if d.value is False else 'notnone'))
                elif isinstance(d, ast.Constant) and d.value is None:
                    # `if p is None: p = E` among the leading statements, the only store of p: with the default in force that is `p = E`
                    stores_ = [n for n in ast.walk(h.node) if isinstance(n, ast.Name) and n.id == p and isinstance(n.ctx, ast.Store)]
                    for i_, st_ in enumerate(h.node.body):
                        if isinstance(st_, ast.If) and not st_.orelse and len(st_.body) == 1 and isinstance(st_.body[0], ast.Assign) \
                                and len(st_.body[0].targets) == 1 and isinstance(st_.body[0].targets[0], ast.Name) and st_.body[0].targets[0].id == p \
                                and len(stores_) == 1 and isinstance(st_.test, ast.Compare) and isinstance(st_.test.left, ast.Name) and st_.test.left.id == p \
                                and len(st_.test.ops) == 1 and isinstance(st_.test.ops[0], ast.Is) and isinstance(st_.test.comparators[0], ast.Constant) \
                                and st_.test.comparators[0].value is None \
                                and not any(isinstance(n, ast.Name) and n.id == p for b_ in h.node.body[:i_] for n in ast.walk(b_)):
                            h.node.body[i_] = st_.body[0]
                            self.log.append(f'{mname}:{h.qual}: `if {p} is None: {p} = ..` read with the default in force')
                            changed = True
                            break
            fn2 = _fold_param_tests(h.node, states) if states else None
            if fn2 is not None:
                h.node.body = fn2.body
                self.log.append(f'{mname}:{h.qual}: read with the new optional parameter(s) {sorted(states)} at their defaults')
                changed = True
        return changed

    # ---------------------------------------------------------------- resolution
    def _resolve(self, mname, cls_name, call):
        h, recv = self._resolve0(mname, cls_name, call)
        if h is not None and h.ok:
            h = self._specialise(h, call)
        return h, recv

    def _specialise(self, h, call):
        """the helper with its tests on optional parameters decided for this call: a parameter (never rebound in the helper) that gets
        the constant None here, or an object the caller built by a constructor call"""
        states = {}
        pos = h.params[:h.npos]
        if h.kind in ('method', 'classmethod'):
            pos = pos[1:]
        given = dict(zip(pos, call.args))
        for kw in call.keywords:
            if kw.arg:
                given[kw.arg] = kw.value
        if any(isinstance(a, ast.Starred) for a in call.args) or any(kw.arg is None for kw in call.keywords):
            return h
        for p in h.params:
            if p in h.stored:
                continue
            a = given.get(p, h.defaults.get(p))
            if a is None:
                continue
            if isinstance(a, ast.Constant):
                if a.value is None:
                    states[p] = 'none'
                elif a.value is True:
                    states[p] = 'true'
                elif a.value is False:
                    states[p] = 'false'
                else:
                    states[p] = 'notnone'
            elif isinstance(a, ast.Name) and self._cur_fn is not None:
                stores = [n for n in ast.walk(self._cur_fn) if isinstance(n, ast.Name) and n.id == a.id and isinstance(n.ctx, (ast.Store, ast.Del))]
                args = [x for x in ast.walk(self._cur_fn.args) if isinstance(x, ast.arg) and x.arg == a.id]
                if len(stores) == 1 and not args:
                    asg = [n for n in ast.walk(self._cur_fn) if isinstance(n, ast.Assign) and len(n.targets) == 1 and n.targets[0] is stores[0]]
                    if asg and isinstance(asg[0].value, ast.Call) and isinstance(asg[0].value.func, (ast.Name, ast.Attribute)):
                        fnm = asg[0].value.func.id if isinstance(asg[0].value.func, ast.Name) else asg[0].value.func.attr
                        if fnm[:1].isupper():
                            states[p] = 'notnone'
        if not states:
            return h
        key = (id(h), tuple(sorted(states.items())))
        if key not in self._special:
            fn2 = _fold_param_tests(h.node, states)
            if fn2 is None:
                self._special[key] = h
            else:
                h2 = _Helper(h.modname, h.qual, fn2, h.cls_name)
                h2.node_orig = h.node
                self._special[key] = h2 if h2.ok else h
        return self._special[key]

    def _resolve0(self, mname, cls_name, call):
        h, recv = self._resolve1(mname, cls_name, call)
        if h is None and self.ext_helpers:
            f = call.func
            key = None
            if isinstance(f, ast.Name):
                key, recv = (mname, None, f.id), None
            elif isinstance(f, ast.Attribute) and isinstance(f.value, ast.Name) and f.value.id in ('self', 'cls') and cls_name:
                key, recv = (mname, cls_name, f.attr), f.value
            x = self.ext_helpers.get(key) if key else None
            if x is not None and any(kw.arg in x.new_params for kw in call.keywords) and \
                    not (self._cur_fn is not None and self._cur_fn is x.node):
                return x, recv
        return h, recv

    def _resolve1(self, mname, cls_name, call):
        f = call.func
        if isinstance(f, ast.Name):
            h = self.helpers.get((mname, None, f.id))
            if h is not None and h.ok:
                return h, None
        elif isinstance(f, ast.Attribute) and isinstance(f.value, ast.Name):
            recv = f.value.id
            if recv in ('self', 'cls') and cls_name:
                h = self.helpers.get((mname, cls_name, f.attr))
                if h is None:
                    cands = [v for (mn, cn, n), v in self.helpers.items() if mn == mname and cn and n == f.attr]
                    h = cands[0] if len(cands) == 1 else None
                if h is not None and h.ok:
                    return h, f.value
            elif recv in self._cur_vars:
                h = self.helpers.get((self._cur_vars[recv][0], self._cur_vars[recv][1], f.attr))
                if h is not None and h.ok and h.kind == 'method':
                    return h, f.value
            else:
                h = self.helpers.get((mname, recv, f.attr))
                if h is not None and h.ok and h.kind in ('staticmethod', 'classmethod'):
                    return h, f.value
                if h is None and not recv[:1].isupper():
                    # a local object: the method is resolved by name when exactly one class of the package defines a method of
                    # that name and no builtin container / text / file type has one
                    cands = [v for (mn, cn, n), v in self.helpers.items() if cn and n == f.attr]
                    if len(cands) == 1 and cands[0].ok and cands[0].kind == 'method' and self._unique_method_name(f.attr):
                        return cands[0], f.value
        return None, None

    def _unique_method_name(self, name):
        if getattr(self, '_method_names', None) is None:
            import io
            names = {}
            for m in self.modules.values():
                for st in ast.walk(m.tree):
                    if isinstance(st, ast.ClassDef):
                        for s2 in st.body:
                            if isinstance(s2, (ast.FunctionDef, ast.AsyncFunctionDef)):
                                names[s2.name] = names.get(s2.name, 0) + 1
                            elif isinstance(s2, ast.Assign):
                                for t in s2.targets:
                                    if isinstance(t, ast.Name):
                                        names[t.id] = names.get(t.id, 0) + 1
            self._method_names = names
            self._foreign_names = set()
            for t in (dict, list, str, bytes, bytearray, set, tuple, int, io.BytesIO, io.StringIO, io.BufferedReader, Exception):
                self._foreign_names |= set(dir(t))
        return self._method_names.get(name) == 1 and name not in self._foreign_names

    # ---------------------------------------------------------------- expansion
    def _expand(self, h, call, recv, mode, targets=None):
        """statements replacing the call; mode in {'assign','return','expr','gen'}"""
        if self.counter > 400:
            return None          # mutually recursive new helpers: stop expanding, analyse the rest as separate functions
        self.counter += 1
        tag = f'__i{self.counter}'
        params = list(h.params)
        bind = {}
        pos_params = params[:h.npos]
        if h.kind in ('method', 'classmethod'):
            if recv is None:
                return None
            bind[pos_params[0]] = recv
            pos_params = pos_params[1:]
        if len(call.args) > len(pos_params) or any(isinstance(a, ast.Starred) for a in call.args):
            return None
        for p, a in zip(pos_params, call.args):
            bind[p] = a
        for kw in call.keywords:
            if kw.arg is None or kw.arg not in params or kw.arg in bind:
                return None
            bind[kw.arg] = kw.value
        for p in params:
            if p not in bind:
                if p not in h.defaults:
                    return None
                bind[p] = h.defaults[p]
        rename, subst, pre = {}, {}, []
        for name in h.stored:
            rename[name] = name + tag
        # threaded state: `x = helper(.., x, ..)` where the helper updates that parameter and returns it on every path
        threaded = None
        if mode == 'assign' and h.tail_ok and len(targets) == 1 and isinstance(targets[0], ast.Name):
            t = targets[0].id
            rets0 = [n for st in h.body for n in _walk_no_defs(st) if isinstance(n, ast.Return)]
            rn0 = {n.value.id if isinstance(n.value, ast.Name) else None for n in rets0}
            if len(rn0) == 1 and None not in rn0:
                v0 = next(iter(rn0))
                if v0 in params and isinstance(bind[v0], ast.Name) and bind[v0].id == t and \
                        sum(1 for a in bind.values() for x in ast.walk(a) if isinstance(x, ast.Name) and x.id == t) == 1:
                    threaded = v0
        dead_after = mode in ('return', 'raise')      # the caller's locals are dead once the helper has run
        arg_name_uses = {}
        for a_ in bind.values():
            for x in ast.walk(a_):
                if isinstance(x, ast.Name):
                    arg_name_uses[x.id] = arg_name_uses.get(x.id, 0) + 1
        if dead_after:
            for name in h.stored:
                if name not in params and name not in arg_name_uses:
                    rename[name] = name          # may reuse (clobber) the caller's name: nothing reads it afterwards
        for p in params:
            a = bind[p]
            if p == threaded:
                rename[p] = targets[0].id
                continue
            if dead_after and p in h.stored and isinstance(a, ast.Name) and arg_name_uses.get(a.id) == 1 and \
                    (a.id == p or a.id not in h.stored):
                rename[p] = a.id
                continue
            if p not in h.stored and _simple_arg(a):
                subst[p] = a
            else:
                rename[p] = p + tag
                asg = ast.Assign(targets=[ast.Name(id=p + tag, ctx=ast.Store())], value=copy.deepcopy(a), lineno=call.lineno)
                pre.append(ast.copy_location(asg, call))
        if not h.tail_ok and mode not in ('return', 'raise'):
            return None
        body = copy.deepcopy(h.raw_body if (dead_after or not h.tail_ok) else h.body)
        # `x = helper(..)` where the helper returns one of its own locals on every path: that local *is* x
        drop_returns = threaded is not None
        if threaded is None and mode == 'assign' and len(targets) == 1 and isinstance(targets[0], ast.Name):
            t = targets[0].id
            rets = [n for st in body for n in _walk_no_defs(st) if isinstance(n, ast.Return)]
            rnames = {n.value.id if isinstance(n.value, ast.Name) else None for n in rets}
            used_in_args = any(isinstance(x, ast.Name) and x.id == t for a in bind.values() for x in ast.walk(a))
            free = {x.id for st in body for x in ast.walk(st) if isinstance(x, ast.Name)} - set(rename) - set(subst)
            if len(rnames) == 1 and None not in rnames and not used_in_args and t not in free:
                v = next(iter(rnames))
                if v in rename and v not in params:
                    rename[v] = t
                    drop_returns = True
        sub = _Subst(rename, subst)
        body = [sub.visit(s) for s in body]

        def fix_returns(stmts):
            out = []
            for st in stmts:
                if isinstance(st, ast.Return):
                    val = st.value if st.value is not None else ast.Constant(value=None)
                    if drop_returns:
                        pass
                    elif mode == 'return':
                        out.append(st)
                    elif mode == 'raise':
                        new = ast.Raise(exc=val, cause=None)
                        out.append(ast.copy_location(new, st) if hasattr(st, 'lineno') else ast.copy_location(new, call))
                    elif mode == 'assign':
                        new = ast.Assign(targets=copy.deepcopy(targets), value=val, lineno=getattr(st, 'lineno', call.lineno))
                        out.append(ast.copy_location(new, st) if hasattr(st, 'lineno') else ast.copy_location(new, call))
                    else:   # expr / gen: the value is not used
                        if any(isinstance(x, (ast.Call, ast.Yield, ast.YieldFrom, ast.Await)) for x in ast.walk(val)):
                            new = ast.Expr(value=val)
                            out.append(ast.copy_location(new, st) if hasattr(st, 'lineno') else ast.copy_location(new, call))
                    continue
                for field in ('body', 'orelse'):
                    subl = getattr(st, field, None)
                    if isinstance(subl, list) and not isinstance(st, DEFS) and (mode in ('return', 'raise') or not isinstance(st, LOOPS)):
                        new = fix_returns(subl)
                        if field == 'body' and not new:
                            new = [ast.copy_location(ast.Pass(), st)]
                        setattr(st, field, new)
                if isinstance(st, ast.Try):
                    for hd in st.handlers:
                        hd.body = fix_returns(hd.body) or [ast.copy_location(ast.Pass(), st)]
                out.append(st)
            return out
        body = fix_returns(body)
        res = pre + body
        for s in res:
            for n in ast.walk(s):
                if not hasattr(n, 'lineno') and isinstance(n, (ast.stmt, ast.expr)):
                    ast.copy_location(n, call)
                if isinstance(n, ast.stmt):
                    n._inlined_from = f'{h.modname}:{h.qual}'
        key = (h.modname, h.cls_name, h.node.name)
        self.inlined_sites[key] = self.inlined_sites.get(key, 0) + 1
        return res

    def _unconditional_calls(self, expr, mname, cls_name):
        """candidate helper calls in expr that are evaluated whenever expr is"""
        out = []

        def rec(e):
            if isinstance(e, (ast.Lambda, ast.ListComp, ast.SetComp, ast.DictComp, ast.GeneratorExp)):
                return
            if isinstance(e, ast.BoolOp):
                rec(e.values[0])
                return
            if isinstance(e, ast.IfExp):
                rec(e.test)
                return
            if isinstance(e, ast.Call):
                h, recv = self._resolve(mname, cls_name, e)
                if h is not None and not h.is_gen and h.tail_ok:
                    out.append((e, h, recv))
            for c in ast.iter_child_nodes(e):
                if isinstance(c, ast.expr):
                    rec(c)
        rec(expr)
        return out

    def _subst_expression_helpers(self, st, mname, cls_name):
        """calls of helpers whose whole body is `return <expr>` are replaced by that expression wherever they occur
        (comprehensions, lambdas, conditional positions included): substitution keeps the evaluation condition"""
        outer = self
        changed = [False]

        class Tr(ast.NodeTransformer):
            def visit_FunctionDef(self, n):
                return n

            visit_AsyncFunctionDef = visit_FunctionDef
            visit_ClassDef = visit_FunctionDef

            def visit_Call(self, n):
                self.generic_visit(n)
                h, recv = outer._resolve(mname, cls_name, n)
                if h is None or h.is_gen or not h.tail_ok or len(h.body) != 1 or not isinstance(h.body[0], ast.Return) or h.body[0].value is None:
                    return n
                if h.stored - set(h.params):
                    return n
                expr = h.body[0].value
                if any(isinstance(x, (ast.Lambda, ast.ListComp, ast.SetComp, ast.DictComp, ast.GeneratorExp, ast.NamedExpr)) for x in ast.walk(expr)):
                    return n
                params = list(h.params)
                pos = params[:h.npos]
                bind = {}
                if h.kind in ('method', 'classmethod'):
                    if recv is None:
                        return n
                    bind[pos[0]] = recv
                    pos = pos[1:]
                if len(n.args) > len(pos) or any(isinstance(a, ast.Starred) for a in n.args):
                    return n
                for p_, a in zip(pos, n.args):
                    bind[p_] = a
                for kw in n.keywords:
                    if kw.arg is None or kw.arg not in params or kw.arg in bind:
                        return n
                    bind[kw.arg] = kw.value
                for p_ in params:
                    if p_ not in bind:
                        if p_ not in h.defaults:
                            return n
                        bind[p_] = h.defaults[p_]
                uses = {}
                for x in ast.walk(expr):
                    if isinstance(x, ast.Name):
                        uses[x.id] = uses.get(x.id, 0) + 1
                for p_ in params:
                    if not _simple_arg(bind[p_]) and uses.get(p_, 0) > 1:
                        return n
                new = _Subst({}, bind).visit(copy.deepcopy(expr))
                for x in ast.walk(new):
                    if isinstance(x, ast.expr) and not hasattr(x, 'lineno'):
                        ast.copy_location(x, n)
                key = (h.modname, h.cls_name, h.node.name)
                outer.inlined_sites[key] = outer.inlined_sites.get(key, 0) + 1
                changed[0] = True
                return ast.copy_location(new, n)
        Tr().visit(st)
        return changed[0]

    def _subst_expression_helpers_shallow(self, st, mname, cls_name):
        """apply the expression substitution to the header expressions of a compound statement, to the whole of a simple one"""
        if isinstance(st, (ast.If, ast.While)):
            w = ast.Expr(value=st.test)
            r = self._subst_expression_helpers(w, mname, cls_name)
            st.test = w.value
            return r
        if isinstance(st, (ast.For, ast.AsyncFor)):
            w = ast.Expr(value=st.iter)
            r = self._subst_expression_helpers(w, mname, cls_name)
            st.iter = w.value
            return r
        if isinstance(st, (ast.With, ast.AsyncWith)):
            r = False
            for it in st.items:
                w = ast.Expr(value=it.context_expr)
                r = self._subst_expression_helpers(w, mname, cls_name) or r
                it.context_expr = w.value
            return r
        if isinstance(st, (ast.Try,)):
            return False
        return self._subst_expression_helpers(st, mname, cls_name)

    def _process_stmt(self, st, mname, cls_name):
        """list of statements replacing st (or None when nothing to do)"""
        # direct forms
        if isinstance(st, ast.Expr) and isinstance(st.value, ast.YieldFrom) and isinstance(st.value.value, ast.Call):
            h, recv = self._resolve(mname, cls_name, st.value.value)
            if h is not None and h.is_gen:
                return self._expand(h, st.value.value, recv, 'gen')
            return None
        if isinstance(st, ast.Return) and isinstance(st.value, ast.Call) and self._cur_fn is not None:
            # `return gen_helper(..)` as the only exit of a plain function: the function is that generator (`yield from gen_helper(..)`)
            h, recv = self._resolve(mname, cls_name, st.value)
            if h is not None and h.is_gen:
                fn = self._cur_fn
                rets = [n for b in fn.body for n in _walk_no_defs(b) if isinstance(n, ast.Return)]
                ys = [n for b in fn.body for n in _walk_no_defs(b) if isinstance(n, (ast.Yield, ast.YieldFrom))]
                if rets == [st] and not ys and fn.body and fn.body[-1] is st:
                    return self._expand(h, st.value, recv, 'gen')
                return None
        if isinstance(st, ast.Expr) and isinstance(st.value, ast.Call):
            h, recv = self._resolve(mname, cls_name, st.value)
            if h is not None and not h.is_gen:
                return self._expand(h, st.value, recv, 'expr')
        if isinstance(st, ast.Return) and isinstance(st.value, ast.Call):
            h, recv = self._resolve(mname, cls_name, st.value)
            if h is not None and not h.is_gen:
                return self._expand(h, st.value, recv, 'return')
        if isinstance(st, ast.Raise) and isinstance(st.exc, ast.Call) and st.cause is None:
            h, recv = self._resolve(mname, cls_name, st.exc)
            if h is not None and not h.is_gen:
                return self._expand(h, st.exc, recv, 'raise')
        if isinstance(st, ast.Assign) and isinstance(st.value, ast.Call) and len(st.targets) == 1 and isinstance(st.targets[0], ast.Name) \
                and st.targets[0].id in self._cur_vars and isinstance(st.value.func, ast.Name) and st.value.func.id == self._cur_vars[st.targets[0].id][1]:
            # `v = Record(args)`: the statements of Record.__init__ with self := v
            km, kn = self._cur_vars[st.targets[0].id]
            h = self.helpers.get((km, kn, '__init__'))
            nt = getattr(self, '_record_fields', {}).get((km, kn)) or []
            if nt and len(st.value.args) == 1 and isinstance(st.value.args[0], ast.Starred) and not st.value.keywords:
                # `v = Record(*seq)`: the fields are the elements of seq
                tg = ast.Tuple(elts=[ast.Attribute(value=ast.Name(id=st.targets[0].id, ctx=ast.Load()), attr=f_, ctx=ast.Store()) for f_, _d in nt], ctx=ast.Store())
                new = ast.Assign(targets=[tg], value=st.value.args[0].value)
                ast.copy_location(new, st)
                ast.fix_missing_locations(new)
                return [new]
            if h is not None and h.ok:
                exp = self._expand(h, st.value, ast.copy_location(ast.Name(id=st.targets[0].id, ctx=ast.Load()), st), 'expr')
                if exp is not None:
                    st._record_ctor_done = True
                    return exp
            return None
        if isinstance(st, ast.Assign) and isinstance(st.value, ast.Call):
            h, recv = self._resolve(mname, cls_name, st.value)
            if h is not None and not h.is_gen:
                return self._expand(h, st.value, recv, 'assign', targets=st.targets)
        # `return list(gen_helper(..))` / `x = list(gen_helper(..))`: the helper's body with every `yield v` turned into `acc.append(v)`
        if isinstance(st, (ast.Return, ast.Assign)) and isinstance(st.value, ast.Call) and isinstance(st.value.func, ast.Name) and st.value.func.id in ('list', 'tuple') \
                and len(st.value.args) == 1 and not st.value.keywords and isinstance(st.value.args[0], ast.Call) \
                and (isinstance(st, ast.Return) or (len(st.targets) == 1 and isinstance(st.targets[0], ast.Name))):
            h, recv = self._resolve(mname, cls_name, st.value.args[0])
            if h is not None and h.is_gen and h.tail_ok:
                exp = self._expand(h, st.value.args[0], recv, 'gen')
                if exp is not None and not any(isinstance(n, ast.Yield) and not isinstance(getattr(n, '_p_', None), ast.Expr) and False for s_ in exp for n in ast.walk(s_)):
                    self.counter += 1
                    acc = f'_acc{self.counter}'
                    ok = [True]

                    class Y(ast.NodeTransformer):
                        def visit_FunctionDef(self_, n):
                            return n
                        visit_Lambda = visit_FunctionDef

                        def visit_Expr(self_, n):
                            if isinstance(n.value, ast.Yield):
                                v = n.value.value if n.value.value is not None else ast.Constant(value=None)
                                call = ast.Call(func=ast.Attribute(value=ast.Name(id=acc, ctx=ast.Load()), attr='append', ctx=ast.Load()), args=[v], keywords=[])
                                return ast.copy_location(ast.Expr(value=ast.copy_location(call, n)), n)
                            if isinstance(n.value, ast.YieldFrom):
                                call = ast.Call(func=ast.Attribute(value=ast.Name(id=acc, ctx=ast.Load()), attr='extend', ctx=ast.Load()), args=[n.value.value], keywords=[])
                                return ast.copy_location(ast.Expr(value=ast.copy_location(call, n)), n)
                            return n

                        def visit_Yield(self_, n):
                            ok[0] = False          # a yield used as an expression
                            return n
                        visit_YieldFrom = visit_Yield
                    new_body = [Y().visit(s_) for s_ in exp]
                    if ok[0]:
                        init = ast.copy_location(ast.Assign(targets=[ast.Name(id=acc, ctx=ast.Store())], value=ast.List(elts=[], ctx=ast.Load())), st)
                        res = ast.Name(id=acc, ctx=ast.Load())
                        if st.value.func.id == 'tuple':
                            res = ast.Call(func=ast.Name(id='tuple', ctx=ast.Load()), args=[res], keywords=[])
                        last = ast.Return(value=res) if isinstance(st, ast.Return) else ast.Assign(targets=st.targets, value=res)
                        out_ = [init] + new_body + [ast.copy_location(last, st)]
                        for s_ in out_:
                            ast.fix_missing_locations(s_)
                        return out_
        # `x = next(gen_helper(..), DEFAULT)`: the helper's loop, leaving with `x = <yielded value>` at the first yield, else `x = DEFAULT`
        if isinstance(st, ast.Assign) and len(st.targets) == 1 and isinstance(st.targets[0], ast.Name) and isinstance(st.value, ast.Call) \
                and isinstance(st.value.func, ast.Name) and st.value.func.id == 'next' and len(st.value.args) == 2 and not st.value.keywords \
                and isinstance(st.value.args[0], ast.Call) and _simple_arg(st.value.args[1]):
            h, recv = self._resolve(mname, cls_name, st.value.args[0])
            if h is not None and h.is_gen and h.tail_ok:
                exp = self._expand(h, st.value.args[0], recv, 'gen')
                tname = st.targets[0].id
                if exp is not None and isinstance(exp[-1], (ast.For, ast.While)) and not exp[-1].orelse and \
                        not any(isinstance(n, (ast.Yield, ast.YieldFrom)) for s_ in exp[:-1] for n in ast.walk(s_)):
                    loop = exp[-1]
                    ok = [True]

                    def first_hit(stmts):
                        out = []
                        for s_ in stmts:
                            if isinstance(s_, ast.Expr) and isinstance(s_.value, ast.Yield):
                                v = s_.value.value if s_.value.value is not None else ast.Constant(value=None)
                                out.append(ast.copy_location(ast.Assign(targets=[ast.Name(id=tname, ctx=ast.Store())], value=v), s_))
                                out.append(ast.copy_location(ast.Break(), s_))
                                break          # what follows the yield is never resumed
                            if isinstance(s_, ast.If):
                                s_.body = first_hit(s_.body)
                                s_.orelse = first_hit(s_.orelse)
                            elif isinstance(s_, ast.Break) or any(isinstance(n, (ast.Yield, ast.YieldFrom)) for n in ast.walk(s_)):
                                ok[0] = False
                            out.append(s_)
                        return out
                    loop.body = first_hit(loop.body)
                    if ok[0]:
                        loop.orelse = [ast.copy_location(ast.Assign(targets=[ast.Name(id=tname, ctx=ast.Store())], value=st.value.args[1]), st)]
                        for s_ in exp:
                            ast.fix_missing_locations(s_)
                        return exp
        # `x = yield from gen_helper(..)`: the helper's yields stay in place, its return value is bound to x
        if isinstance(st, ast.Assign) and isinstance(st.value, ast.YieldFrom) and isinstance(st.value.value, ast.Call):
            h, recv = self._resolve(mname, cls_name, st.value.value)
            if h is not None and h.is_gen and h.tail_ok:
                return self._expand(h, st.value.value, recv, 'assign', targets=st.targets)
        # `for t in gen_helper(..): BODY` with a one-yield generator helper: the helper's loop with BODY in place of the yield
        if isinstance(st, ast.For) and not st.orelse and isinstance(st.iter, ast.Call):
            h, recv = self._resolve(mname, cls_name, st.iter)
            if h is not None and h.is_gen and h.tail_ok:
                ys = [n for s_ in h.body for n in ast.walk(s_) if isinstance(n, (ast.Yield, ast.YieldFrom))]
                jumps = [n for b_ in st.body for n in ast.walk(b_) if isinstance(n, (ast.Break, ast.Continue)) and not _inside_inner_loop(n, st)]
                body_ok = not jumps
                if jumps and len(ys) == 1:
                    # `continue` of the consumer is the next step of the helper's own loop when the yield is the last thing that loop does; `break` abandons the
                    # generator, which is leaving the helper's loop when nothing follows it in the helper
                    def find_loop(stmts, chain):
                        for s_ in stmts:
                            if isinstance(s_, ast.Expr) and s_.value is ys[0]:
                                return chain, stmts
                            for field in ('body', 'orelse', 'finalbody'):
                                sub = getattr(s_, field, None)
                                if isinstance(sub, list) and sub and isinstance(sub[0], ast.stmt) and not isinstance(s_, DEFS):
                                    r_ = find_loop(sub, chain + [s_] if isinstance(s_, LOOPS) and field == 'body' else chain + [None] * 0)
                                    if r_ is not None:
                                        return r_
                        return None
                    loc = find_loop(h.body, [])
                    if loc is not None and len(loc[0]) == 1:
                        hloop, holder = loc[0][0], loc[1]
                        y_last = holder is hloop.body and isinstance(holder[-1], ast.Expr) and holder[-1].value is ys[0]
                        tail = [x for x in h.body if not (isinstance(x, ast.Return) and (x.value is None or (isinstance(x.value, ast.Constant) and x.value.value is None)))]
                        loop_last = bool(tail) and tail[-1] is hloop and not hloop.orelse
                        has_cont = any(isinstance(j, ast.Continue) for j in jumps)
                        has_brk = any(isinstance(j, ast.Break) for j in jumps)
                        body_ok = (not has_cont or y_last) and (not has_brk or loop_last)
                if len(ys) > 1 and all(isinstance(y, ast.Yield) and y.value is not None for y in ys):
                    # several yields, each the last thing its path through the helper's loop does: the consumer's body follows the branching once
                    def tail_leaves(stmts):
                        if not stmts:
                            return None
                        last = stmts[-1]
                        if isinstance(last, ast.Expr) and isinstance(last.value, ast.Yield):
                            return [(stmts, last)]
                        if isinstance(last, ast.If) and last.orelse:
                            a_, b_ = tail_leaves(last.body), tail_leaves(last.orelse)
                            return None if a_ is None or b_ is None else a_ + b_
                        return None
                    exp = self._expand(h, st.iter, recv, 'gen')
                    has_brk = any(isinstance(j, ast.Break) for j in jumps)
                    if exp is not None:
                        loops_ = [x for s_ in exp for x in ast.walk(s_) if isinstance(x, LOOPS)]
                        all_y = [x for s_ in exp for x in ast.walk(s_) if isinstance(x, (ast.Yield, ast.YieldFrom))]
                        for lp_ in loops_:
                            lv = tail_leaves(lp_.body)
                            if lv is None or len(lv) != len(all_y) or {id(l.value) for (_b, l) in lv} != {id(y) for y in all_y}:
                                continue
                            if has_brk and not (exp[-1] is lp_ and not lp_.orelse):
                                continue
                            for (blk, leaf) in lv:
                                tgt = copy.deepcopy(st.target)
                                for x in ast.walk(tgt):
                                    if isinstance(x, ast.Name):
                                        x.ctx = ast.Store()
                                v = leaf.value.value
                                if isinstance(tgt, ast.Tuple) and isinstance(v, ast.Tuple) and len(tgt.elts) == len(v.elts) and \
                                        all(isinstance(e, ast.Name) for e in tgt.elts) and \
                                        not ({e.id for e in tgt.elts} & {x.id for x in ast.walk(v) if isinstance(x, ast.Name)}):
                                    new_ = [ast.copy_location(ast.Assign(targets=[t_], value=v_), leaf) for t_, v_ in zip(tgt.elts, v.elts)]
                                else:
                                    new_ = [ast.copy_location(ast.Assign(targets=[tgt], value=v), leaf)]
                                blk[-1:] = new_
                            lp_.body.extend(st.body)
                            for s_ in exp:
                                ast.fix_missing_locations(s_)
                            return exp
                if len(ys) == 1 and isinstance(ys[0], ast.Yield) and ys[0].value is not None and body_ok:
                    exp = self._expand(h, st.iter, recv, 'gen')
                    if exp is not None:
                        done = [False]

                        def splice(stmts):
                            out = []
                            for s_ in stmts:
                                if isinstance(s_, ast.Expr) and isinstance(s_.value, ast.Yield) and not done[0]:
                                    done[0] = True
                                    asg = ast.Assign(targets=[copy.deepcopy(st.target)], value=s_.value.value, lineno=getattr(s_, 'lineno', st.lineno))
                                    for x in ast.walk(asg.targets[0]):
                                        if isinstance(x, ast.Name):
                                            x.ctx = ast.Store()
                                    out.append(ast.copy_location(asg, s_))
                                    out.extend(st.body)
                                    continue
                                for field in ('body', 'orelse', 'finalbody'):
                                    sub = getattr(s_, field, None)
                                    if isinstance(sub, list) and sub and isinstance(sub[0], ast.stmt) and not isinstance(s_, DEFS):
                                        setattr(s_, field, splice(sub))
                                for hd in getattr(s_, 'handlers', []) or []:
                                    hd.body = splice(hd.body)
                                out.append(s_)
                            return out
                        fused = splice(exp)
                        if done[0]:
                            return fused
        # hoisted forms
        headers = []
        if isinstance(st, (ast.Assign, ast.AugAssign, ast.AnnAssign, ast.Expr, ast.Return)):
            if getattr(st, 'value', None) is not None:
                headers.append(st.value)
        elif isinstance(st, ast.If):
            headers.append(st.test)
        elif isinstance(st, ast.For):
            headers.append(st.iter)
        elif isinstance(st, ast.Raise) and st.exc is not None:
            headers.append(st.exc)
        elif isinstance(st, ast.With):
            headers.extend(i.context_expr for i in st.items)
        pre = []
        for hexpr in headers:
            if any(isinstance(x, (ast.Yield, ast.YieldFrom)) for x in ast.walk(hexpr)):
                continue
            for call, h, recv in self._unconditional_calls(hexpr, mname, cls_name):
                self.counter += 1
                tmp = f'_inl{self.counter}'
                tgt = [ast.copy_location(ast.Name(id=tmp, ctx=ast.Store()), call)]
                exp = self._expand(h, call, recv, 'assign', targets=tgt)
                if exp is None:
                    continue
                pre.extend(exp)
                # replace the call node in place by a load of the temporary
                repl = ast.copy_location(ast.Name(id=tmp, ctx=ast.Load()), call)
                _replace_node(st, call, repl)
        if pre:
            return pre + [st]
        return None

    def _process_body(self, body, mname, cls_name):
        changed = False
        i = 0
        while i < len(body):
            st = body[i]
            if isinstance(st, ast.ClassDef):
                i += 1
                continue
            if isinstance(st, (ast.FunctionDef, ast.AsyncFunctionDef)):
                if self._process_body(st.body, mname, cls_name):
                    changed = True
                i += 1
                continue
            if self._subst_expression_helpers_shallow(st, mname, cls_name):
                changed = True
            new = self._process_stmt(st, mname, cls_name)
            if new is not None:
                body[i:i + 1] = new or [ast.copy_location(ast.Pass(), st)]
                changed = True
                # the statement itself (last of `new` in hoisted mode) still needs its nested bodies processed
                if new and new[-1] is st:
                    i += len(new) - 1
                else:
                    continue       # re-examine what was spliced in (nested helper calls)
            for field in ('body', 'orelse', 'finalbody'):
                sub = getattr(st, field, None)
                if isinstance(sub, list) and sub and isinstance(sub[0], ast.stmt):
                    if self._process_body(sub, mname, cls_name):
                        changed = True
            for hd in getattr(st, 'handlers', []) or []:
                if self._process_body(hd.body, mname, cls_name):
                    changed = True
            i += 1
        return changed

    def _namedtuple_calls_to_tuples(self):
        """`K(a=x, b=y)` for a new, method-less typing.NamedTuple class K is the tuple `(x, y)` in field order (what every consumer that unpacks or
        indexes it sees)"""
        changed = False
        for mname, m in self.modules.items():
            nts = {}
            for st in m.tree.body:
                if isinstance(st, ast.ClassDef) and not st.decorator_list and len(st.bases) == 1 and \
                        (ast.unparse(st.bases[0]) in ('NamedTuple', 'typing.NamedTuple')) and not any(p_.startswith(f'{mname}:{st.name}.') for p_ in self.pinned):
                    fields, defaults, ok = [], {}, True
                    for s2 in st.body:
                        if isinstance(s2, ast.AnnAssign) and isinstance(s2.target, ast.Name):
                            fields.append(s2.target.id)
                            if s2.value is not None:
                                defaults[s2.target.id] = s2.value
                        elif isinstance(s2, ast.Expr) and isinstance(s2.value, ast.Constant):
                            pass
                        else:
                            ok = False
                    if ok and fields:
                        nts[st.name] = (fields, defaults)
            if not nts:
                continue

            class Tr(ast.NodeTransformer):
                def visit_Call(self, n):
                    self.generic_visit(n)
                    if isinstance(n.func, ast.Name) and n.func.id in nts and not any(isinstance(a, ast.Starred) for a in n.args) \
                            and all(k.arg is not None for k in n.keywords):
                        fields, defaults = nts[n.func.id]
                        vals = dict(zip(fields, n.args))
                        for k in n.keywords:
                            vals[k.arg] = k.value
                        for f_ in fields:
                            if f_ not in vals and f_ in defaults:
                                vals[f_] = copy.deepcopy(defaults[f_])
                        if set(vals) == set(fields):
                            nonlocal changed
                            changed = True
                            return ast.copy_location(ast.Tuple(elts=[vals[f_] for f_ in fields], ctx=ast.Load()), n)
                    return n
            Tr().visit(m.tree)
            if changed:
                self.log.append(f'{mname}: constructor calls of the NamedTuple class(es) {sorted(nts)} read as tuples')
        return changed

    def _unroll_table_loops(self):
        """A scan of a small literal table that stops at the first hit

            for a, b in TABLE:            if COND[a1, b1]: BODY[a1, b1]
                if COND: BODY; break  ->  elif COND[a2, b2]: BODY[a2, b2]
            else: ORELSE                  else: ORELSE

        is the if/elif chain it abbreviates.  TABLE is bound once - at module level, or in the function itself and used by this loop only -
        to a tuple/list of names, constants, argument-less lambdas, or tuples of those; the loop variables are used nowhere else in the
        function; BODY ends with break, return or raise.  `(lambda: X)()` left by the substitution is X."""
        changed = False

        def atom(e, local=False):
            if isinstance(e, (ast.Name, ast.Constant)) or (isinstance(e, ast.Attribute) and _simple_arg(e)):
                return True
            return local and isinstance(e, ast.Lambda) and not (e.args.args or e.args.posonlyargs or e.args.kwonlyargs or e.args.vararg or e.args.kwarg)

        def table_value(v, local=False):
            if isinstance(v, (ast.Tuple, ast.List)) and 0 < len(v.elts) <= 8:
                if all(atom(e, local) for e in v.elts):
                    return True
                return all(isinstance(e, ast.Tuple) and e.elts and all(atom(x, local) for x in e.elts) for e in v.elts) and len({len(e.elts) for e in v.elts}) == 1
            return False

        class Beta(ast.NodeTransformer):
            def visit_Call(self_, n):
                self_.generic_visit(n)
                if isinstance(n.func, ast.Lambda) and not n.args and not n.keywords:
                    return n.func.body
                return n
        for mname, m in self.modules.items():
            tables, stores = {}, {}
            for n in ast.walk(m.tree):
                if isinstance(n, ast.Name) and isinstance(n.ctx, (ast.Store, ast.Del)):
                    stores[n.id] = stores.get(n.id, 0) + 1
                elif isinstance(n, ast.arg):
                    stores[n.arg] = stores.get(n.arg, 0) + 1
            for st in m.tree.body:
                if isinstance(st, ast.Assign) and len(st.targets) == 1 and isinstance(st.targets[0], ast.Name):
                    if table_value(st.value) and stores.get(st.targets[0].id) == 1:
                        tables[st.targets[0].id] = st.value
            for fn in [n for n in ast.walk(m.tree) if isinstance(n, ast.FunctionDef)]:
                # tables of the function itself: bound once by a top-level statement of the function, read once (by the loop)
                local = {}
                fstores, floads = {}, {}
                for n in ast.walk(fn):
                    if isinstance(n, ast.Name):
                        d_ = fstores if isinstance(n.ctx, (ast.Store, ast.Del)) else floads
                        d_[n.id] = d_.get(n.id, 0) + 1
                    elif isinstance(n, ast.arg):
                        fstores[n.arg] = fstores.get(n.arg, 0) + 2
                for st in fn.body:
                    if isinstance(st, ast.Assign) and len(st.targets) == 1 and isinstance(st.targets[0], ast.Name) and table_value(st.value, True) \
                            and fstores.get(st.targets[0].id) == 1 and floads.get(st.targets[0].id) == 1:
                        local[st.targets[0].id] = st
                for holder in ast.walk(fn):
                    for field in ('body', 'orelse', 'finalbody'):
                        body = getattr(holder, field, None)
                        if not isinstance(body, list):
                            continue
                        for i, st in enumerate(body):
                            if not (isinstance(st, ast.For) and isinstance(st.iter, ast.Name)):
                                continue
                            if st.iter.id in local:
                                tab = local[st.iter.id].value
                            elif st.iter.id in tables and st.iter.id not in fstores:
                                tab = tables[st.iter.id]
                            else:
                                continue
                            if isinstance(st.target, ast.Name):
                                tnames = [st.target.id]
                                rows = [[e] for e in tab.elts]
                                if any(isinstance(e, ast.Tuple) for e in tab.elts):
                                    continue
                            elif isinstance(st.target, ast.Tuple) and all(isinstance(e, ast.Name) for e in st.target.elts):
                                tnames = [e.id for e in st.target.elts]
                                if not all(isinstance(e, ast.Tuple) and len(e.elts) == len(tnames) for e in tab.elts):
                                    continue
                                rows = [list(e.elts) for e in tab.elts]
                            else:
                                continue
                            if not (len(st.body) == 1 and isinstance(st.body[0], ast.If) and not st.body[0].orelse
                                    and isinstance(st.body[0].body[-1], (ast.Break, ast.Return, ast.Raise))):
                                continue
                            inner = st.body[0]
                            if any(isinstance(x, (ast.Break, ast.Continue, ast.FunctionDef, ast.Lambda))
                                   for b in inner.body[:-1] for x in ast.walk(b)):
                                continue
                            inside = {id(x) for x in ast.walk(st)}
                            if any(isinstance(x, ast.Name) and x.id in tnames and id(x) not in inside for x in ast.walk(fn)):
                                continue
                            if any(isinstance(x, ast.Name) and x.id in tnames and isinstance(x.ctx, ast.Store)
                                   for b in st.body for x in ast.walk(b)):
                                continue
                            keep_last = not isinstance(inner.body[-1], ast.Break)
                            chain = list(st.orelse)
                            for row in reversed(rows):
                                sub = _Subst({}, dict(zip(tnames, row)))
                                test = Beta().visit(sub.visit(copy.deepcopy(inner.test)))
                                src_ = inner.body if keep_last else inner.body[:-1]
                                blk = [Beta().visit(sub.visit(copy.deepcopy(b))) for b in src_] or [ast.copy_location(ast.Pass(), inner)]
                                chain = [ast.copy_location(ast.If(test=test, body=blk, orelse=chain), st)]
                            for c_ in chain:
                                ast.fix_missing_locations(c_)
                            body[i:i + 1] = chain
                            if st.iter.id in local and local[st.iter.id] in fn.body:
                                fn.body.remove(local[st.iter.id])
                            self.log.append(f'{mname}:{fn.name}: scan of the table `{st.iter.id}` unrolled into an if/elif chain')
                            changed = True
        return changed

    def _lower_dict_dispatch(self):
        """`f = TABLE[K]; <statement calling f(..)>` with TABLE a module-level literal dict (bound once) of constant keys -> the chain
        `if K == k1: <statement with the value of k1 for f> elif .. else: raise KeyError(K)`.  For keys that are tuples of booleans and
        K = (bool(a), bool(b), ..) the tests are written over a, b themselves; an exhaustive table needs no KeyError branch."""
        changed = False
        for mname, m in self.modules.items():
            stores = {}
            for n in ast.walk(m.tree):
                if isinstance(n, ast.Name) and isinstance(n.ctx, (ast.Store, ast.Del)):
                    stores[n.id] = stores.get(n.id, 0) + 1
            tables = {}
            for st in m.tree.body:
                if isinstance(st, ast.Assign) and len(st.targets) == 1 and isinstance(st.targets[0], ast.Name) and isinstance(st.value, ast.Dict) \
                        and stores.get(st.targets[0].id) == 1 and 0 < len(st.value.keys) <= 16:
                    def ckey(k):
                        return isinstance(k, ast.Constant) or (isinstance(k, ast.Tuple) and all(isinstance(e, ast.Constant) for e in k.elts))
                    if all(k is not None and ckey(k) for k in st.value.keys) and all(isinstance(v, (ast.Name, ast.Attribute, ast.Constant)) for v in st.value.values):
                        tables[st.targets[0].id] = st.value
            if not tables:
                continue
            for fn in [n for n in ast.walk(m.tree) if isinstance(n, ast.FunctionDef)]:
                fstores, floads = {}, {}
                for n in ast.walk(fn):
                    if isinstance(n, ast.Name):
                        d_ = fstores if isinstance(n.ctx, (ast.Store, ast.Del)) else floads
                        d_[n.id] = d_.get(n.id, 0) + 1
                for holder in ast.walk(fn):
                    for field in ('body', 'orelse', 'finalbody'):
                        body = getattr(holder, field, None)
                        if not isinstance(body, list):
                            continue
                        for i, st in enumerate(body[:-1]):
                            if not (isinstance(st, ast.Assign) and len(st.targets) == 1 and isinstance(st.targets[0], ast.Name) and isinstance(st.value, ast.Subscript)
                                    and isinstance(st.value.value, ast.Name) and st.value.value.id in tables and st.value.value.id not in fstores):
                                continue
                            f_ = st.targets[0].id
                            nxt = body[i + 1]
                            uses = [n for n in ast.walk(nxt) if isinstance(n, ast.Name) and n.id == f_ and isinstance(n.ctx, ast.Load)]
                            if fstores.get(f_) != 1 or floads.get(f_) != 1 or len(uses) != 1 or not isinstance(nxt, (ast.Assign, ast.Expr, ast.Return)):
                                continue
                            if not any(isinstance(c, ast.Call) and c.func is uses[0] for c in ast.walk(nxt)):
                                continue
                            tab, K = tables[st.value.value.id], st.value.slice
                            keys = [tuple(e.value for e in k.elts) if isinstance(k, ast.Tuple) else k.value for k in tab.keys]
                            bool_form = isinstance(K, ast.Tuple) and all(isinstance(e, ast.Call) and isinstance(e.func, ast.Name) and e.func.id == 'bool'
                                                                         and len(e.args) == 1 and isinstance(e.args[0], ast.Name) for e in K.elts) \
                                and all(isinstance(k, tuple) and len(k) == len(K.elts) and all(type(x) is bool for x in k) for k in keys)
                            if not bool_form and not all(isinstance(n, (ast.Name, ast.Constant, ast.Tuple, ast.Attribute, ast.Load)) for n in ast.walk(K)):
                                continue
                            exhaustive = bool_form and len(set(keys)) == 2 ** len(K.elts)
                            chain = [] if exhaustive else [ast.Raise(exc=ast.Call(func=ast.Name(id='KeyError', ctx=ast.Load()), args=[copy.deepcopy(K)], keywords=[]), cause=None)]
                            rows = list(zip(keys, tab.keys, tab.values))
                            for idx, (kv, knode, vnode) in reversed(list(enumerate(rows))):
                                if bool_form:
                                    atoms = [copy.deepcopy(e.args[0]) if b else ast.UnaryOp(op=ast.Not(), operand=copy.deepcopy(e.args[0])) for e, b in zip(K.elts, kv)]
                                    test = atoms[0] if len(atoms) == 1 else ast.BoolOp(op=ast.And(), values=atoms)
                                else:
                                    test = ast.Compare(left=copy.deepcopy(K), ops=[ast.Eq()], comparators=[copy.deepcopy(knode)])
                                stmt = copy.deepcopy(nxt)
                                u2 = [n for n in ast.walk(stmt) if isinstance(n, ast.Name) and n.id == f_ and isinstance(n.ctx, ast.Load)][0]
                                _replace_node(stmt, u2, copy.deepcopy(vnode))
                                if exhaustive and idx == len(rows) - 1:
                                    chain = [stmt]
                                else:
                                    chain = [ast.If(test=test, body=[stmt], orelse=chain)]
                            for c_ in chain:
                                ast.copy_location(c_, st)
                                ast.fix_missing_locations(c_)
                            body[i:i + 2] = chain
                            self.log.append(f'{mname}:{fn.name}: dispatch through the table `{st.value.value.id}` written out as an if/elif chain')
                            changed = True
                            break
        return changed

    def run(self):
        nt_changed = self._namedtuple_calls_to_tuples()
        if self._deforward():
            nt_changed = True
        if self._unroll_table_loops():
            nt_changed = True
        if self._lower_dict_dispatch():
            nt_changed = True
        cands = self.discover()
        self._find_records()
        if not cands and not self.records and not self.ext_helpers:
            if nt_changed:
                for m in self.modules.values():
                    ast.fix_missing_locations(m.tree)
            return nt_changed
        self._unalias_helper_values()
        any_change = self._residualise_extended_calls() if self.ext_helpers else False
        for _round in range(3):
            changed = False
            for mname, m in self.modules.items():
                for st in m.tree.body:
                    if isinstance(st, ast.FunctionDef):
                        self._cur_vars = self.records.get(id(st), {})
                        self._cur_fn = st
                        if self._process_body(st.body, mname, None):
                            changed = True
                    elif isinstance(st, ast.ClassDef):
                        for s2 in st.body:
                            if isinstance(s2, ast.FunctionDef):
                                self._cur_vars = self.records.get(id(s2), {})
                                self._cur_fn = s2
                                if self._process_body(s2.body, mname, st.name):
                                    changed = True
            self._cur_vars = {}
            self._cur_fn = None
            if not changed:
                break
            any_change = True
            # helpers may have had inner helper calls expanded: refresh their prepared bodies
            for k, h in list(self.helpers.items()):
                self.helpers[k] = _Helper(h.modname, h.qual, h.node, h.cls_name)
            self._special = {}
        if self._specialise_extended():
            any_change = True
        any_change = any_change or nt_changed
        if any_change:
            self._scalarise_records()
            self._propagate_made_aliases()
            self._drop_fully_inlined()
            for m in self.modules.values():
                ast.fix_missing_locations(m.tree)
        return any_change

    def _unalias_helper_values(self):
        """`h = self._helper` (bound once, only ever called) followed by `h(..)`: the calls are rewritten to `self._helper(..)`."""
        def do_func(fn, mname, cls_name):
            stores = {}
            for n in ast.walk(fn):
                if isinstance(n, ast.Name) and isinstance(n.ctx, (ast.Store, ast.Del)):
                    stores[n.id] = stores.get(n.id, 0) + 1
                elif isinstance(n, (ast.Global, ast.Nonlocal)):
                    for nm in n.names:
                        stores[nm] = stores.get(nm, 0) + 2
                elif isinstance(n, ast.arg):
                    stores[n.arg] = stores.get(n.arg, 0) + 2
            args = {a.arg for a in fn.args.posonlyargs + fn.args.args + fn.args.kwonlyargs}
            for st in list(fn.body):
                if not (isinstance(st, ast.Assign) and len(st.targets) == 1 and isinstance(st.targets[0], ast.Name)):
                    continue
                name = st.targets[0].id
                if stores.get(name) != 1 or name in args or not isinstance(st.value, (ast.Name, ast.Attribute)):
                    continue
                fake = ast.Call(func=st.value, args=[], keywords=[])
                h, _recv = self._resolve(mname, cls_name, fake)
                if h is None:
                    continue
                uses = [n for n in ast.walk(fn) if isinstance(n, ast.Name) and n.id == name and isinstance(n.ctx, ast.Load)]
                calls = {id(c.func) for c in ast.walk(fn) if isinstance(c, ast.Call) and isinstance(c.func, ast.Name) and c.func.id == name}
                if not uses or any(id(u) not in calls for u in uses):
                    continue
                # the alias must be bound before every use: it is a top-level statement of the function and the uses follow it textually
                if any((u.lineno, u.col_offset) < (st.lineno, st.col_offset) for u in uses):
                    continue
                for c in ast.walk(fn):
                    if isinstance(c, ast.Call) and isinstance(c.func, ast.Name) and c.func.id == name:
                        c.func = ast.copy_location(copy.deepcopy(st.value), c.func)
                fn.body.remove(st)
                if not fn.body:
                    fn.body.append(ast.copy_location(ast.Pass(), st))
                self.log.append(f'{mname}:{fn.name}: alias `{name} = {ast.unparse(st.value)}` of a new helper resolved')
        for mname, m in self.modules.items():
            for st in m.tree.body:
                if isinstance(st, ast.FunctionDef):
                    do_func(st, mname, None)
                elif isinstance(st, ast.ClassDef):
                    for s2 in st.body:
                        if isinstance(s2, ast.FunctionDef):
                            do_func(s2, mname, st.name)

    # ---------------------------------------------------------------- record objects (scalar replacement)
    def _new_record_classes(self):
        out = {}
        for mname, m in self.modules.items():
            for st in m.tree.body:
                if not isinstance(st, ast.ClassDef) or st.decorator_list or st.keywords:
                    continue
                if any(p_.startswith(f'{mname}:{st.name}.') for p_ in self.pinned):
                    continue
                nt_fields = self._namedtuple_fields(st)
                if nt_fields is not None:
                    rec = self._namedtuple_record(mname, st, nt_fields)
                    if rec is not None:
                        out[(mname, st.name)] = rec
                    continue
                if any(not (isinstance(b, ast.Name) and b.id == 'object') for b in st.bases):
                    continue
                ok = True
                for s2 in st.body:
                    if isinstance(s2, ast.FunctionDef):
                        if s2.name.startswith('__') and s2.name != '__init__':
                            ok = False
                        if s2.decorator_list:
                            ok = False
                    elif isinstance(s2, ast.Expr) and isinstance(s2.value, ast.Constant):
                        pass
                    elif isinstance(s2, ast.Assign) and all(isinstance(t, ast.Name) and t.id == '__slots__' for t in s2.targets):
                        pass
                    elif isinstance(s2, ast.Pass):
                        pass
                    else:
                        ok = False
                init = next((s2 for s2 in st.body if isinstance(s2, ast.FunctionDef) and s2.name == '__init__'), None)
                if not ok or init is None:
                    continue
                # __init__ only assigns fields
                fields = set()
                body = [x for x in init.body if not (isinstance(x, ast.Expr) and isinstance(x.value, ast.Constant))]
                for x in body:
                    if isinstance(x, ast.Assign) and all(isinstance(t, ast.Attribute) and isinstance(t.value, ast.Name) and t.value.id == init.args.args[0].arg for t in x.targets):
                        fields |= {t.attr for t in x.targets}
                    elif isinstance(x, ast.Assign) and all(isinstance(t, ast.Name) for t in x.targets):
                        pass        # a plain local of __init__
                    else:
                        ok = False
                if ok and fields:
                    out[(mname, st.name)] = (st, fields, init, {})
        return out

    @staticmethod
    def _namedtuple_fields(st):
        """field names (with defaults) of a NamedTuple class, else None"""
        if len(st.bases) != 1:
            return None
        b = st.bases[0]
        if ast.unparse(b) in ('NamedTuple', 'typing.NamedTuple'):
            fields = []
            for s2 in st.body:
                if isinstance(s2, ast.AnnAssign) and isinstance(s2.target, ast.Name):
                    fields.append((s2.target.id, s2.value))
            return fields or None
        if isinstance(b, ast.Call) and ast.unparse(b.func) in ('namedtuple', 'collections.namedtuple') and len(b.args) == 2 and not b.keywords:
            a = b.args[1]
            if isinstance(a, ast.Constant) and isinstance(a.value, str):
                return [(x, None) for x in a.value.replace(',', ' ').split()] or None
            if isinstance(a, (ast.List, ast.Tuple)) and all(isinstance(e, ast.Constant) and isinstance(e.value, str) for e in a.elts):
                return [(e.value, None) for e in a.elts] or None
        return None

    def _namedtuple_record(self, mname, st, nt_fields):
        """(class node, field names, synthesised __init__, {property name: expression}) for an immutable record class whose methods are plain methods
        and single-expression properties"""
        props = {}
        for s2 in st.body:
            if isinstance(s2, ast.FunctionDef):
                if s2.name.startswith('__'):
                    return None
                if s2.decorator_list:
                    body = [x for x in s2.body if not (isinstance(x, ast.Expr) and isinstance(x.value, ast.Constant))]
                    if len(s2.decorator_list) == 1 and ast.unparse(s2.decorator_list[0]) == 'property' and len(body) == 1 and isinstance(body[0], ast.Return) \
                            and body[0].value is not None and len(s2.args.args) == 1:
                        props[s2.name] = (s2.args.args[0].arg, body[0].value)
                    else:
                        return None
            elif isinstance(s2, (ast.AnnAssign, ast.Pass)) or (isinstance(s2, ast.Expr) and isinstance(s2.value, ast.Constant)):
                pass
            elif isinstance(s2, ast.Assign) and all(isinstance(t, ast.Name) and t.id == '__slots__' for t in s2.targets):
                pass
            else:
                return None
        names = [f for f, _ in nt_fields]
        args = ast.arguments(posonlyargs=[], args=[ast.arg(arg='self')] + [ast.arg(arg=f) for f in names], kwonlyargs=[], kw_defaults=[],
                             defaults=[copy.deepcopy(d) for _, d in nt_fields if d is not None] if all(d is not None for _, d in nt_fields[len([1 for _, d in nt_fields if d is None]):]) else [])
        body = [ast.Assign(targets=[ast.Attribute(value=ast.Name(id='self', ctx=ast.Load()), attr=f, ctx=ast.Store())], value=ast.Name(id=f, ctx=ast.Load())) for f in names]
        init = ast.FunctionDef(name='__init__', args=args, body=body, decorator_list=[], returns=None, type_comment=None, type_params=[])
        ast.copy_location(init, st)
        for n in ast.walk(init):
            if isinstance(n, (ast.expr, ast.stmt)) and not hasattr(n, 'lineno'):
                ast.copy_location(n, st)
        ast.fix_missing_locations(init)
        return (st, set(names), init, props)

    def _hoist_temp_records(self, classes):
        """`K(a).method(b)` - a record object built for one call: `_recN = K(a)` in front of the statement, `_recN.method(b)` in place"""
        def uncond(e, out):
            if isinstance(e, (ast.Lambda, ast.ListComp, ast.SetComp, ast.DictComp, ast.GeneratorExp)):
                return
            if isinstance(e, ast.BoolOp):
                uncond(e.values[0], out)
                return
            if isinstance(e, ast.IfExp):
                uncond(e.test, out)
                return
            out.append(e)
            for c in ast.iter_child_nodes(e):
                if isinstance(c, ast.expr):
                    uncond(c, out)
        for mname, m in self.modules.items():
            for fn in [n for n in ast.walk(m.tree) if isinstance(n, ast.FunctionDef)]:
                for holder in ast.walk(fn):
                    for field in ('body', 'orelse', 'finalbody'):
                        body = getattr(holder, field, None)
                        if not isinstance(body, list):
                            continue
                        i = 0
                        while i < len(body):
                            st = body[i]
                            heads = []
                            if isinstance(st, (ast.Assign, ast.AugAssign, ast.AnnAssign, ast.Expr, ast.Return)) and getattr(st, 'value', None) is not None:
                                heads.append(st.value)
                            elif isinstance(st, ast.If):
                                heads.append(st.test)
                            pre = []
                            for hexpr in heads:
                                nodes = []
                                uncond(hexpr, nodes)
                                for e in nodes:
                                    if isinstance(e, ast.Call) and isinstance(e.func, ast.Attribute) and isinstance(e.func.value, ast.Call) \
                                            and isinstance(e.func.value.func, ast.Name) and (mname, e.func.value.func.id) in classes:
                                        self.counter += 1
                                        tmp = f'_rec{self.counter}'
                                        asg = ast.Assign(targets=[ast.Name(id=tmp, ctx=ast.Store())], value=e.func.value)
                                        pre.append(ast.copy_location(asg, st))
                                        e.func.value = ast.copy_location(ast.Name(id=tmp, ctx=ast.Load()), e.func.value)
                                        self._made_prefixes.add(tmp + '__')
                            for a_ in pre:
                                ast.fix_missing_locations(a_)
                            body[i:i] = pre
                            i += len(pre) + 1

    def _find_records(self):
        classes = self._new_record_classes()
        if not classes:
            return
        for (mname, kname), (cnode, fields, init, props) in classes.items():
            self.helpers[(mname, kname, '__init__')] = _Helper(mname, f'{kname}.__init__', init, kname)
        self._hoist_temp_records(classes)
        self._record_fields = {k: list(self._namedtuple_fields(v[0]) or []) for k, v in classes.items()}
        for mname, m in self.modules.items():
            fns = []
            for st in m.tree.body:
                if isinstance(st, ast.FunctionDef):
                    fns.append(st)
                elif isinstance(st, ast.ClassDef):
                    fns += [s2 for s2 in st.body if isinstance(s2, ast.FunctionDef)]
            for fn in fns:
                parent = {}
                for n in ast.walk(fn):
                    for c in ast.iter_child_nodes(n):
                        parent[id(c)] = n
                stores, ctor = {}, {}
                for n in ast.walk(fn):
                    if isinstance(n, ast.Name) and isinstance(n.ctx, (ast.Store, ast.Del)):
                        stores[n.id] = stores.get(n.id, 0) + 1
                    elif isinstance(n, ast.arg):
                        stores[n.arg] = stores.get(n.arg, 0) + 2
                    elif isinstance(n, (ast.Global, ast.Nonlocal)):
                        for nm in n.names:
                            stores[nm] = stores.get(nm, 0) + 2
                for n in ast.walk(fn):
                    if isinstance(n, ast.Assign) and len(n.targets) == 1 and isinstance(n.targets[0], ast.Name) and isinstance(n.value, ast.Call) \
                            and isinstance(n.value.func, ast.Name) and (mname, n.value.func.id) in classes and stores.get(n.targets[0].id) == 1:
                        ctor[n.targets[0].id] = n.value.func.id
                good = {}
                for v, kname in ctor.items():
                    cnode, fields, _init, props = classes[(mname, kname)]
                    methods = {s2.name for s2 in cnode.body if isinstance(s2, ast.FunctionDef) and not s2.name.startswith('__') and not s2.decorator_list}
                    ok = True
                    nested = [d for d in ast.walk(fn) if d is not fn and isinstance(d, DEFS + (ast.Lambda,))]
                    for n in ast.walk(fn):
                        if isinstance(n, ast.Name) and n.id == v and isinstance(n.ctx, ast.Load):
                            par = parent.get(id(n))
                            if not (isinstance(par, ast.Attribute) and par.value is n):
                                ok = False
                                break
                            gp = parent.get(id(par))
                            is_call = isinstance(gp, ast.Call) and gp.func is par
                            if is_call and par.attr not in methods:
                                ok = False
                            if not is_call and par.attr not in fields and par.attr not in props:
                                ok = False
                            if not is_call and not isinstance(par.ctx, ast.Load) and par.attr in props:
                                ok = False
                            if any(n in ast.walk(d) for d in nested):
                                ok = False
                    if ok:
                        good[v] = (mname, kname)
                        if props:
                            # a property read is its expression with self := v
                            class PT(ast.NodeTransformer):
                                def visit_Attribute(self_, a):
                                    self_.generic_visit(a)
                                    if isinstance(a.value, ast.Name) and a.value.id == v and a.attr in props and isinstance(a.ctx, ast.Load):
                                        sname, expr = props[a.attr]
                                        e2 = copy.deepcopy(expr)
                                        for x in ast.walk(e2):
                                            if isinstance(x, ast.Name) and x.id == sname:
                                                x.id = v
                                        return ast.copy_location(e2, a)
                                    return a
                            for _ in range(2):       # a property may use another one
                                PT().visit(fn)
                if good:
                    self.records[id(fn)] = good
                    self._rec_funcs[id(fn)] = fn

    def _scalarise_records(self):
        """after the constructor and the method calls of a record local were expanded, what is left of it are field accesses `v.a`:
        each becomes the local `v__a` (the record never left the function)"""
        for fid, vars_ in self.records.items():
            fn = self._rec_funcs[fid]
            for v, (mname, kname) in vars_.items():
                parent = {}
                for n in ast.walk(fn):
                    for c in ast.iter_child_nodes(n):
                        parent[id(c)] = n
                uses = [n for n in ast.walk(fn) if isinstance(n, ast.Name) and n.id == v]
                clean = bool(uses) and all(isinstance(parent.get(id(n)), ast.Attribute) and parent[id(n)].value is n and isinstance(n.ctx, ast.Load)
                                            and not (isinstance(parent.get(id(parent[id(n)])), ast.Call) and parent[id(parent[id(n)])].func is parent[id(n)])
                                            for n in uses)
                if not clean:
                    continue

                class Tr(ast.NodeTransformer):
                    def visit_Attribute(self, a):
                        self.generic_visit(a)
                        if isinstance(a.value, ast.Name) and a.value.id == v:
                            return ast.copy_location(ast.Name(id=f'{v}__{a.attr}', ctx=a.ctx), a)
                        return a
                Tr().visit(fn)
                self._made_prefixes.add(v + '__')
                self.log.append(f'{mname}:{fn.name}: record local `{v}` ({kname}) replaced by its fields')

    def _propagate_made_aliases(self):
        """`p__i3 = q` where p__i3 is a name this pass made (a bound parameter of an expanded helper, a field of a dissolved record), bound
        exactly once, and q is a name of the function that is bound at most once: p__i3 *is* q; the copy is removed."""
        import re
        made = re.compile(r'.*__i\d+$')

        def is_made(name):
            return bool(made.match(name)) or any(name.startswith(p) for p in self._made_prefixes)

        def pure(e):
            for n in ast.walk(e):
                if isinstance(n, ast.Call):
                    if not (isinstance(n.func, ast.Name) and n.func.id in ('len', 'min', 'max', 'abs', 'bool', 'int', 'str', 'isinstance') and not n.keywords):
                        return False
                elif not isinstance(n, (ast.Name, ast.Constant, ast.Attribute, ast.BinOp, ast.UnaryOp, ast.Compare, ast.BoolOp, ast.Subscript, ast.Tuple,
                                        ast.operator, ast.unaryop, ast.cmpop, ast.boolop, ast.expr_context)):
                    return False
            return True
        for m in self.modules.values():
            for fn in [n for n in ast.walk(m.tree) if isinstance(n, ast.FunctionDef)]:
                for _ in range(6):
                    stores = {}
                    for n in (x for b in fn.body for x in ast.walk(b)):
                        if isinstance(n, ast.Name) and isinstance(n.ctx, (ast.Store, ast.Del)):
                            stores[n.id] = stores.get(n.id, 0) + 1
                        elif isinstance(n, ast.ExceptHandler) and n.name:
                            stores[n.name] = stores.get(n.name, 0) + 2
                        elif isinstance(n, (ast.Global, ast.Nonlocal)):
                            for nm in n.names:
                                stores[nm] = stores.get(nm, 0) + 2
                    # closures may read a name later: what they mention is left alone
                    for d_ in [n for n in ast.walk(fn) if isinstance(n, DEFS + (ast.Lambda,)) and n is not fn]:
                        for n in ast.walk(d_):
                            if isinstance(n, ast.Name):
                                stores[n.id] = stores.get(n.id, 0) + 5
                            elif isinstance(n, ast.arg):
                                stores[n.arg] = stores.get(n.arg, 0) + 5
                    params = {a.arg for a in ast.walk(fn.args) if isinstance(a, ast.arg)}
                    done = False
                    for holder in ast.walk(fn):
                        for field in ('body', 'orelse', 'finalbody'):
                            body = getattr(holder, field, None)
                            if not isinstance(body, list):
                                continue
                            for i, st in enumerate(body):
                                if isinstance(st, ast.Assign) and len(st.targets) == 1 and isinstance(st.targets[0], ast.Tuple) and \
                                        isinstance(st.value, ast.Tuple) and len(st.value.elts) == len(st.targets[0].elts) and \
                                        all(isinstance(e, ast.Name) for e in st.targets[0].elts + st.value.elts) and \
                                        any(is_made(e.id) for e in st.targets[0].elts + st.value.elts) and \
                                        not ({e.id for e in st.targets[0].elts} & {e.id for e in st.value.elts}):
                                    # `a, b = (p__i1, q__i1)`: two plain copies
                                    body[i:i + 1] = [ast.copy_location(ast.Assign(targets=[t_], value=v_), st) for t_, v_ in zip(st.targets[0].elts, st.value.elts)]
                                    done = True
                                    break
                                if isinstance(st, ast.Assign) and len(st.targets) == 1 and isinstance(st.targets[0], ast.Name) and is_made(st.targets[0].id) \
                                        and not isinstance(st.value, ast.Name) and pure(st.value) and i + 1 < len(body) and stores.get(st.targets[0].id) == 1:
                                    # `n__i2 = len(part)` read once, by the statement that follows: the expression in place of the name
                                    t = st.targets[0].id
                                    loads = [n for n in ast.walk(fn) if isinstance(n, ast.Name) and n.id == t and isinstance(n.ctx, ast.Load)]
                                    nxt = body[i + 1]
                                    heads = [nxt] if isinstance(nxt, (ast.Assign, ast.AugAssign, ast.Expr, ast.Return)) else \
                                        ([nxt.test] if isinstance(nxt, ast.If) else [])
                                    if len(loads) == 1 and heads and any(n is loads[0] for h_ in heads for n in ast.walk(h_)):
                                        _replace_node(nxt, loads[0], copy.deepcopy(st.value))
                                        del body[i]
                                        done = True
                                        break
                                if isinstance(st, ast.Assign) and len(st.targets) == 1 and isinstance(st.targets[0], ast.Name) and isinstance(st.value, ast.Name):
                                    t, q = st.targets[0].id, st.value.id
                                    if is_made(t) and stores.get(t) == 1 and t not in params and t != q and \
                                            ((q in params and not stores.get(q)) or (q not in params and stores.get(q) == 1)):
                                        for n in ast.walk(fn):
                                            if isinstance(n, ast.Name) and n.id == t and isinstance(n.ctx, ast.Load):
                                                n.id = q
                                        del body[i]
                                        if not body:
                                            body.append(ast.copy_location(ast.Pass(), st))
                                        done = True
                                        break
                                    if is_made(q) and stores.get(q) == 1 and q not in params and t != q and \
                                            sum(1 for n in ast.walk(fn) if isinstance(n, ast.Name) and n.id == q and isinstance(n.ctx, ast.Load)) == 1:
                                        # `q__i1 = E; ...; t = q__i1` in one block, nothing in between mentions t: `t = E` where q__i1 was bound
                                        js = [j for j in range(i) if isinstance(body[j], ast.Assign) and len(body[j].targets) == 1
                                              and isinstance(body[j].targets[0], ast.Name) and body[j].targets[0].id == q]
                                        if js and not any(isinstance(n, ast.Name) and n.id == t for b_ in body[js[-1] + 1:i] for n in ast.walk(b_)):
                                            body[js[-1]].targets[0].id = t
                                            del body[i]
                                            done = True
                                            break
                                    if is_made(q) and not is_made(t) and stores.get(t) == 1 and stores.get(q) == 1 and t not in params and q not in params and t != q:
                                        # the made name is given the name of its only copy
                                        del body[i]
                                        if not body:
                                            body.append(ast.copy_location(ast.Pass(), st))
                                        for n in ast.walk(fn):
                                            if isinstance(n, ast.Name) and n.id == q:
                                                n.id = t
                                        done = True
                                        break
                            if done:
                                break
                        if done:
                            break
                    if not done:
                        break

    def _drop_fully_inlined(self):
        for (mname, cname, name), h in self.helpers.items():
            if not self.inlined_sites.get((mname, cname, name)):
                continue
            # any remaining mention of the helper's name anywhere in the package keeps it
            remaining = False
            for m in self.modules.values():
                for n in ast.walk(m.tree):
                    if n is h.node:
                        continue
                    if isinstance(n, ast.Name) and n.id == name and cname is None:
                        remaining = True
                    elif isinstance(n, ast.Attribute) and n.attr == name:
                        remaining = True
                    elif isinstance(n, ast.alias) and n.name == name:
                        remaining = True
                    elif isinstance(n, ast.Constant) and n.value == name:
                        remaining = True
                if remaining:
                    break
            if remaining:
                continue
            tree = self.modules[mname].tree
            if cname is None:
                tree.body = [s for s in tree.body if s is not h.node]
            else:
                for st in tree.body:
                    if isinstance(st, ast.ClassDef) and st.name == cname:
                        st.body = [s for s in st.body if s is not h.node] or [ast.Pass()]
            self.log.append(f'{mname}:{h.qual} inlined at {self.inlined_sites[(mname, cname, name)]} call site(s)')


def _inside_inner_loop(n, outer):
    """the break / continue `n` belongs to a loop nested inside `outer` (not to `outer` itself)"""
    def find(node, stack):
        if node is n:
            return stack
        for c in ast.iter_child_nodes(node):
            r = find(c, stack + ([node] if isinstance(node, LOOPS) else []))
            if r is not None:
                return r
        return None
    st = find(outer, [])
    return st is not None and len(st) > 1


def _replace_node(root, old, new):
    for parent in ast.walk(root):
        for field, val in ast.iter_fields(parent):
            if val is old:
                setattr(parent, field, new)
                return True
            if isinstance(val, list):
                for i, x in enumerate(val):
                    if x is old:
                        val[i] = new
                        return True
    return False
