"""Inlining of helper functions that are not part of the reference layout.

The rules are anchored at the functions of the analysed package (sa/pinned_functions.txt lists the layout the
rules were written against).  A refactoring that moves a few statements of an anchored function into a new
private helper must not change any verdict, so before the function tables are built every call of a *new*
helper (a function whose qualified name is not in that list) is replaced by the helper's body:

    x = helper(a, b)      ->   <params bound or substituted>; <body with locals renamed>; x = <returned expr>
    return helper(a)      ->   ...; return <returned expr>
    helper(a)             ->   ...
    yield from helper(a)  ->   ...  (generator helpers; their yields become yields of the caller)
    if helper(a) < n:     ->   _inlN = <...>; if _inlN < n:        (hoisted; unconditional positions only)

Only helpers whose returns can all be brought into tail position (guard clauses are nested into else-branches
first) and that have no nested defs, no *args/**kwargs, no global/nonlocal and no recursion are inlined; calls
in conditionally evaluated positions (while tests, lambdas, comprehensions, right operands of and/or, if-expression
arms) are left alone.  Whatever is not inlined is analysed the way it was before - as a separate function.
A helper all of whose uses were inlined is dropped from the tree, so its statements are analysed once, in the
context of their caller.  The transformation is applied to the in-memory syntax tree only.
"""
import ast
import copy
import os

_PINNED = None
_PINNED_META = None


def _load_pinned():
    global _PINNED, _PINNED_META
    if _PINNED is None:
        p = os.path.join(os.path.dirname(os.path.abspath(__file__)), 'pinned_functions.txt')
        meta = {}
        with open(p) as f:
            for l in f:
                l = l.rstrip('\n')
                if not l.strip():
                    continue
                parts = l.split('\t')
                meta[parts[0]] = (parts[1].split(',') if len(parts) > 1 and parts[1] else [], int(parts[2]) if len(parts) > 2 else 0,
                                  parts[3].split(',') if len(parts) > 3 and parts[3] else [])
        _PINNED, _PINNED_META = set(meta), meta


def pinned_functions():
    _load_pinned()
    return _PINNED


def pinned_callers(fq):
    """the functions that called `fq` in the reference layout"""
    _load_pinned()
    m = _PINNED_META.get(fq)
    return list(m[2]) if m else []


def undo_renames(modules, log=None):
    """A function of the reference layout that is gone while a new one with the same parameters (and a body of similar size) appeared
    in the same scope was renamed: the old name is restored in the in-memory tree (definition and every reference in the package), so
    that the rules find their anchor.  Only unambiguous pairs are taken; anything else is left alone (the anchor lookup then fails as an
    analysis error, never as a verdict)."""
    _load_pinned()
    renames = {}
    for mname, m in modules.items():
        scopes = [(None, [st for st in m.tree.body if isinstance(st, ast.FunctionDef)])]
        for st in m.tree.body:
            if isinstance(st, ast.ClassDef):
                scopes.append((st.name, [s2 for s2 in st.body if isinstance(s2, ast.FunctionDef)]))
        for cname, defs in scopes:
            prefix = f'{mname}:' + (f'{cname}.' if cname else '')
            pinned_here = {fq[len(prefix):] for fq in _PINNED if fq.startswith(prefix) and '.' not in fq[len(prefix):]}
            present = {d.name: d for d in defs}
            missing = sorted(pinned_here - set(present))
            new = sorted(n for n in present if n not in pinned_here and not (n.startswith('__') and n.endswith('__')))
            if not missing or not new:
                continue
            for old in missing:
                params, size = _PINNED_META[prefix + old][:2]
                cands = []
                for n in new:
                    d = present[n]
                    a = d.args
                    ps = [x.arg for x in a.posonlyargs + a.args] + ([a.vararg.arg] if a.vararg else []) + [x.arg for x in a.kwonlyargs] + ([a.kwarg.arg] if a.kwarg else [])
                    sz = sum(1 for x in ast.walk(d) if isinstance(x, ast.stmt)) - 1
                    if len(ps) == len(params) and abs(sz - size) <= max(3, size // 2):
                        cands.append((ps == params, n))
                exact = [n for (e, n) in cands if e]
                pick = exact if len(exact) == 1 else ([n for (_, n) in cands] if len(cands) == 1 else [])
                if len(pick) == 1 and pick[0] not in renames:
                    renames[pick[0]] = old
                    new.remove(pick[0])
    if not renames:
        return False
    for m in modules.values():
        for n in ast.walk(m.tree):
            if isinstance(n, ast.FunctionDef) and n.name in renames:
                n.name = renames[n.name]
            elif isinstance(n, ast.Name) and n.id in renames:
                n.id = renames[n.id]
            elif isinstance(n, ast.Attribute) and n.attr in renames:
                n.attr = renames[n.attr]
            elif isinstance(n, ast.alias) and n.name in renames and n.asname is None:
                n.name = renames[n.name]
    if log is not None:
        for k, v in sorted(renames.items()):
            log.append(f'function `{k}` taken for the renamed `{v}` of the reference layout')
    return True


class _SubstAttr(ast.NodeTransformer):
    """self.<attr> -> expression, <param> -> expression"""
    def __init__(self, selfname, attr_map, name_map):
        self.selfname, self.attr_map, self.name_map = selfname, attr_map, name_map

    def visit_Attribute(self, node):
        if isinstance(node.value, ast.Name) and node.value.id == self.selfname and node.attr in self.attr_map and isinstance(node.ctx, ast.Load):
            return copy.deepcopy(self.attr_map[node.attr])
        self.generic_visit(node)
        return node

    def visit_Name(self, node):
        if node.id in self.name_map and isinstance(node.ctx, ast.Load):
            return copy.deepcopy(self.name_map[node.id])
        return node


def lower_context_managers(modules, log=None):
    """`with K(args): body` where K is a class of the package (not of the reference layout) whose __init__ only stores its arguments, whose __enter__ returns
    self / nothing and whose __exit__ ignores the exception and never swallows it is `<enter>; try: body finally: <exit>`.  `with f(args): body` where f is
    a @contextmanager generator of the package with a single `yield` statement is f's body with the yield replaced by `body`.  Anything else is left alone."""
    _load_pinned()
    counter = [0]
    changed = False

    def simple(e):
        return isinstance(e, (ast.Name, ast.Constant)) or (isinstance(e, ast.Attribute) and simple(e.value))

    def is_cm_decorated(fn):
        for d in fn.decorator_list:
            t = d
            nm = t.id if isinstance(t, ast.Name) else (t.attr if isinstance(t, ast.Attribute) else None)
            if nm == 'contextmanager':
                return True
        return False

    def find_class(m, name):
        for st in m.tree.body:
            if isinstance(st, ast.ClassDef) and st.name == name:
                return m, st
        for st in m.tree.body:
            if isinstance(st, ast.ImportFrom):
                for a in st.names:
                    if (a.asname or a.name) == name:
                        for m2 in modules.values():
                            if st.module and m2.name.endswith(st.module.split('.')[-1]):
                                for st2 in m2.tree.body:
                                    if isinstance(st2, ast.ClassDef) and st2.name == a.name:
                                        return m2, st2
        return None, None

    def lower_class(m, w, item, call):
        cm, C = find_class(m, call.func.id)
        if C is None or f'{cm.name}:{C.name}.__exit__' in _PINNED or any(fq.startswith(f'{cm.name}:{C.name}.') for fq in _PINNED):
            return None
        meth = {st.name: st for st in C.body if isinstance(st, ast.FunctionDef)}
        if '__enter__' not in meth or '__exit__' not in meth or C.bases:
            return None
        init = meth.get('__init__')
        attr_map = {}
        if init is not None:
            ps = [a.arg for a in init.args.args][1:]
            if init.args.vararg or init.args.kwarg or init.args.kwonlyargs or len(call.args) + len(call.keywords) != len(ps):
                return None
            amap = dict(zip(ps, call.args))
            for k in call.keywords:
                if k.arg not in ps:
                    return None
                amap[k.arg] = k.value
            if not all(simple(v) for v in amap.values()):
                return None
            sn = init.args.args[0].arg
            for st in init.body:
                if isinstance(st, ast.Expr) and isinstance(st.value, ast.Constant):
                    continue
                if isinstance(st, ast.Assign) and len(st.targets) == 1 and isinstance(st.targets[0], ast.Attribute) and isinstance(st.targets[0].value, ast.Name) \
                        and st.targets[0].value.id == sn and isinstance(st.value, ast.Name) and st.value.id in amap:
                    attr_map[st.targets[0].attr] = amap[st.value.id]
                else:
                    return None
        elif call.args or call.keywords:
            return None
        en, ex = meth['__enter__'], meth['__exit__']
        # __enter__: statements, then `return self` / `return` / nothing
        en_body = [st for st in en.body if not (isinstance(st, ast.Expr) and isinstance(st.value, ast.Constant))]
        en_ret = None
        if en_body and isinstance(en_body[-1], ast.Return):
            en_ret = en_body[-1].value
            en_body = en_body[:-1]
        if any(isinstance(x, (ast.Return, ast.Yield)) for st in en_body for x in ast.walk(st)):
            return None
        sn_en = en.args.args[0].arg
        if item.optional_vars is not None:
            # the bound object must not be needed as an object
            return None
        if en_ret is not None and not (isinstance(en_ret, ast.Name) and en_ret.id == sn_en) and not (isinstance(en_ret, ast.Constant)):
            return None
        ex_body = [st for st in ex.body if not (isinstance(st, ast.Expr) and isinstance(st.value, ast.Constant))]
        if ex_body and isinstance(ex_body[-1], ast.Return):
            rv = ex_body[-1].value
            if not (rv is None or (isinstance(rv, ast.Constant) and not rv.value)):
                return None
            ex_body = ex_body[:-1]
        if any(isinstance(x, (ast.Return, ast.Yield)) for st in ex_body for x in ast.walk(st)):
            return None
        ex_params = {a.arg for a in ex.args.args[1:]} | ({ex.args.vararg.arg} if ex.args.vararg else set())
        if any(isinstance(x, ast.Name) and x.id in ex_params for st in ex_body for x in ast.walk(st)):
            return None
        sn_ex = ex.args.args[0].arg
        # every use of self in the copied bodies must be one of the stored attributes
        for (snm, body) in ((sn_en, en_body), (sn_ex, ex_body)):
            for st in body:
                for x in ast.walk(st):
                    if isinstance(x, ast.Name) and x.id == snm:
                        par_ok = False
                        for y in ast.walk(st):
                            if isinstance(y, ast.Attribute) and y.value is x and y.attr in attr_map and isinstance(y.ctx, ast.Load):
                                par_ok = True
                        if not par_ok:
                            return None
        pre = [_SubstAttr(sn_en, attr_map, {}).visit(copy.deepcopy(st)) for st in en_body]
        fin = [_SubstAttr(sn_ex, attr_map, {}).visit(copy.deepcopy(st)) for st in ex_body]
        tr = ast.Try(body=w.body, handlers=[], orelse=[], finalbody=fin or [ast.Pass()])
        return pre + [tr], C.name

    def find_func(m, encl_cls, call):
        f = call.func
        if isinstance(f, ast.Name):
            for st in m.tree.body:
                if isinstance(st, ast.FunctionDef) and st.name == f.id:
                    return st, None, f'{m.name}:{st.name}'
        if isinstance(f, ast.Attribute) and isinstance(f.value, ast.Name) and f.value.id in ('self', 'cls') and encl_cls is not None:
            for st in encl_cls.body:
                if isinstance(st, ast.FunctionDef) and st.name == f.attr:
                    return st, f.value, f'{m.name}:{encl_cls.name}.{st.name}'
        return None, None, None

    def lower_gen(m, encl_cls, w, item, call):
        fn, recv, fq = find_func(m, encl_cls, call)
        if fn is None or fq in _PINNED or not is_cm_decorated(fn):
            return None
        ys = [x for x in ast.walk(fn) if isinstance(x, (ast.Yield, ast.YieldFrom))]
        if len(ys) != 1 or isinstance(ys[0], ast.YieldFrom):
            return None
        if any(isinstance(x, ast.Return) for x in ast.walk(fn)):
            return None
        ps = [a.arg for a in fn.args.args]
        if fn.args.vararg or fn.args.kwarg or fn.args.kwonlyargs:
            return None
        name_map = {}
        if recv is not None:
            if not ps:
                return None
            name_map[ps[0]] = recv
            ps = ps[1:]
        if len(call.args) + len(call.keywords) != len(ps) or not all(simple(a) for a in call.args) or not all(simple(k.value) for k in call.keywords):
            return None
        for p_, a in zip(ps, call.args):
            name_map[p_] = a
        for k in call.keywords:
            if k.arg not in ps:
                return None
            name_map[k.arg] = k.value
        # parameters must not be rebound in the generator
        for x in ast.walk(fn):
            if isinstance(x, ast.Name) and isinstance(x.ctx, ast.Store) and x.id in name_map:
                return None
        body = copy.deepcopy([st for st in fn.body if not (isinstance(st, ast.Expr) and isinstance(st.value, ast.Constant))])
        counter[0] += 1
        sfx = f'__cm{counter[0]}'
        locals_ = {x.id for st in body for x in ast.walk(st) if isinstance(x, ast.Name) and isinstance(x.ctx, ast.Store)} | \
            {h.name for st in body for h in ast.walk(st) if isinstance(h, ast.ExceptHandler) and h.name}
        found = [False]

        def place(stmts):
            out = []
            for st in stmts:
                if isinstance(st, ast.Expr) and isinstance(st.value, ast.Yield):
                    if item.optional_vars is not None:
                        if st.value.value is None:
                            return None
                        out.append(ast.Assign(targets=[item.optional_vars], value=st.value.value))
                    out.extend(w.body)
                    found[0] = True
                    continue
                for fld in ('body', 'orelse', 'finalbody'):
                    sub = getattr(st, fld, None)
                    if isinstance(sub, list) and sub and isinstance(sub[0], ast.stmt):
                        r = place(sub)
                        if r is None:
                            return None
                        setattr(st, fld, r)
                if isinstance(st, ast.Try):
                    for h in st.handlers:
                        r = place(h.body)
                        if r is None:
                            return None
                        h.body = r
                out.append(st)
            return out
        # rename the generator's locals first (the with body is not touched: it is spliced in afterwards)
        class _Ren(ast.NodeTransformer):
            def visit_Name(self, node):
                if node.id in locals_:
                    node.id = node.id + sfx
                elif node.id in name_map and isinstance(node.ctx, ast.Load):
                    return copy.deepcopy(name_map[node.id])
                return node

            def visit_ExceptHandler(self, node):
                if node.name and node.name in locals_:
                    node.name = node.name + sfx
                self.generic_visit(node)
                return node
        body = [_Ren().visit(st) for st in body]
        res = place(body)
        if res is None or not found[0]:
            return None
        # the yield must have been a statement of its own (not buried in an expression / loop)
        if any(isinstance(x, ast.Yield) for st in res for x in ast.walk(st) if not any(x is y for b in w.body for y in ast.walk(b))):
            return None
        return res, fn.name

    def rewrite(m, stmts, encl_cls):
        nonlocal changed
        out = []
        for st in stmts:
            if isinstance(st, ast.ClassDef):
                st.body = rewrite(m, st.body, st)
                out.append(st)
                continue
            for fld in ('body', 'orelse', 'finalbody'):
                sub = getattr(st, fld, None)
                if isinstance(sub, list) and sub and isinstance(sub[0], ast.stmt):
                    setattr(st, fld, rewrite(m, sub, encl_cls))
            if isinstance(st, ast.Try):
                for h in st.handlers:
                    h.body = rewrite(m, h.body, encl_cls)
            if isinstance(st, ast.With) and len(st.items) == 1 and isinstance(st.items[0].context_expr, ast.Call):
                item = st.items[0]
                call = item.context_expr
                r = None
                if isinstance(call.func, ast.Name):
                    r = lower_class(m, st, item, call)
                if r is None:
                    r = lower_gen(m, encl_cls, st, item, call)
                if r is not None:
                    new, what = r
                    for n_ in new:
                        ast.copy_location(n_, st)
                        ast.fix_missing_locations(n_)
                    out.extend(new)
                    changed = True
                    if log is not None:
                        log.append(f'`with {what}(..)` lowered to try / finally / except')
                    continue
            out.append(st)
        return out
    for m in modules.values():
        m.tree.body = rewrite(m, m.tree.body, None)
    return changed


_PINNED_SIGS = None


def _load_pinned_sigs():
    global _PINNED_SIGS
    if _PINNED_SIGS is None:
        import json
        p = os.path.join(os.path.dirname(os.path.abspath(__file__)), 'pinned_signatures.json')
        try:
            with open(p) as f:
                _PINNED_SIGS = json.load(f)
        except OSError:
            _PINNED_SIGS = {}
    return _PINNED_SIGS


def simple_expr(e):
    return isinstance(e, (ast.Name, ast.Constant)) or (isinstance(e, ast.Attribute) and simple_expr(e.value))


def undo_signature_changes(modules, log=None):
    """A private function (or the constructor of a private class) of the reference layout that has the parameter *names* of the reference but another order
    or other kinds (keyword-only <-> positional) gets its reference signature back, and every call - direct, or through functools.partial - is re-bound by
    name.  Only when every reference to the function is such a call (or a partial whose remaining positional parameters keep the reference order)."""
    sigs = _load_pinned_sigs()
    changed = False

    def cur_sig(fn):
        a = fn.args
        r = [(x.arg, 'pos') for x in a.posonlyargs + a.args]
        if a.vararg:
            r.append((a.vararg.arg, 'vararg'))
        r += [(x.arg, 'kwonly') for x in a.kwonlyargs]
        if a.kwarg:
            r.append((a.kwarg.arg, 'kwarg'))
        return r

    def defaults_of(fn):
        a = fn.args
        pos = a.posonlyargs + a.args
        d = {}
        for x, v in zip(pos[len(pos) - len(a.defaults):], a.defaults):
            d[x.arg] = v
        for x, v in zip(a.kwonlyargs, a.kw_defaults):
            if v is not None:
                d[x.arg] = v
        return d

    def annotations_of(fn):
        a = fn.args
        return {x.arg: x.annotation for x in a.posonlyargs + a.args + a.kwonlyargs}

    def bind(cur, call_args, call_kws, skip_first):
        """name -> expr through the current signature; None when it cannot be done"""
        pos = [n for (n, k) in cur if k == 'pos']
        if skip_first:
            pos = pos[1:]
        if any(isinstance(a, ast.Starred) for a in call_args) or any(k.arg is None for k in call_kws) or len(call_args) > len(pos):
            return None
        m = dict(zip(pos, call_args))
        names = {n for (n, k) in cur}
        for k in call_kws:
            if k.arg in m or k.arg not in names:
                return None
            m[k.arg] = k.value
        return m

    def emit(ref, m, skip_first):
        pos = [n for (n, k) in ref if k == 'pos']
        if skip_first:
            pos = pos[1:]
        args, kws = [], []
        contiguous = True
        for n in pos:
            if n in m and contiguous:
                args.append(m[n])
            elif n in m:
                kws.append(ast.keyword(arg=n, value=m[n]))
            else:
                contiguous = False
        for (n, k) in ref:
            if k == 'kwonly' and n in m:
                kws.append(ast.keyword(arg=n, value=m[n]))
        return args, kws
    # a parameter the reference does not have, with a constant default that no call overrides, is that constant
    for mname, mod in modules.items():
        fns = [(f'{mname}:{st.name}', st) for st in mod.tree.body if isinstance(st, ast.FunctionDef)] + \
              [(f'{mname}:{c.name}.{st.name}', st) for c in mod.tree.body if isinstance(c, ast.ClassDef) for st in c.body if isinstance(st, ast.FunctionDef)]
        for fq, fn in fns:
            ref = sigs.get(fq)
            if ref is None:
                continue
            refnames = {n for n, _ in ref}
            dflt = defaults_of(fn)
            extra = [n for (n, k) in cur_sig(fn) if n not in refnames and k in ('pos', 'kwonly')]
            for n in extra:
                v = dflt.get(n)
                if not isinstance(v, ast.Constant):
                    continue
                if any(isinstance(x, ast.Name) and x.id == n and isinstance(x.ctx, (ast.Store, ast.Del)) for x in ast.walk(fn)):
                    continue
                if any(isinstance(x, (ast.FunctionDef, ast.Lambda)) and x is not fn and any(a.arg == n for a in x.args.args + x.args.kwonlyargs) for x in ast.walk(fn)):
                    continue
                passed = False
                npos_ref = len([1 for _, k in ref if k == 'pos'])
                is_pos = any(a.arg == n for a in fn.args.args)
                for m2 in modules.values():
                    for c in ast.walk(m2.tree):
                        if isinstance(c, ast.Call):
                            cn_ = c.func.id if isinstance(c.func, ast.Name) else (c.func.attr if isinstance(c.func, ast.Attribute) else None)
                            if any(k.arg == n or k.arg is None for k in c.keywords) and (cn_ == fn.name or (cn_ == 'partial' and c.args and getattr(c.args[0], 'id', getattr(c.args[0], 'attr', None)) == fn.name)):
                                passed = True
                            if is_pos and cn_ == fn.name and (len(c.args) > npos_ref - (1 if isinstance(c.func, ast.Attribute) and '.' in fq.partition(':')[2] else 0) or
                                                              any(isinstance(a, ast.Starred) for a in c.args)):
                                passed = True
                if passed:
                    continue

                class _Fold(ast.NodeTransformer):
                    def visit_Name(self, node):
                        if node.id == n and isinstance(node.ctx, ast.Load):
                            return ast.copy_location(ast.Constant(value=v.value), node)
                        return node
                a = fn.args
                if is_pos:
                    idx = [x.arg for x in a.args].index(n)
                    di = idx - (len(a.args) - len(a.defaults))
                    del a.args[idx]
                    if 0 <= di < len(a.defaults):
                        del a.defaults[di]
                else:
                    idx = [x.arg for x in a.kwonlyargs].index(n)
                    del a.kwonlyargs[idx]
                    del a.kw_defaults[idx]
                fn.body = [_Fold().visit(st) for st in fn.body]
                changed = True
                if log is not None:
                    log.append(f'`{fq}`: parameter `{n}` (not in the reference, default {v.value!r} never overridden) folded')
    method_names = {}
    for mod in modules.values():
        for c_ in ast.walk(mod.tree):
            if isinstance(c_, ast.ClassDef):
                for s2 in c_.body:
                    if isinstance(s2, ast.FunctionDef):
                        method_names[s2.name] = method_names.get(s2.name, 0) + 1
    # an argument the reference computes in the callee's first statement, now computed by every caller: `def f(.., rule, ..): route = K(rule)` <- `f(.., K(x), ..)`
    for mname, mod in modules.items():
        for cdef in [c_ for c_ in mod.tree.body if isinstance(c_, ast.ClassDef)]:
            for fn in [s2 for s2 in cdef.body if isinstance(s2, ast.FunctionDef)]:
                fq = f'{mname}:{cdef.name}.{fn.name}'
                ref = sigs.get(fq)
                if ref is None or method_names.get(fn.name) != 1 or not fn.name.startswith('_') or fn.name.startswith('__'):
                    continue
                cur = cur_sig(fn)
                refn, curn = [n for n, _ in ref], [n for n, _ in cur]
                gone = [n for n in refn if n not in curn]
                new_ = [n for n in curn if n not in refn]
                if len(gone) != 1 or len(new_) != 1 or refn.index(gone[0]) != curn.index(new_[0]):
                    continue
                if any(isinstance(x, ast.Name) and x.id == gone[0] for x in ast.walk(fn)):
                    continue
                calls = [c for m2 in modules.values() for c in ast.walk(m2.tree) if isinstance(c, ast.Call) and isinstance(c.func, ast.Attribute) and c.func.attr == fn.name]
                refs = sum(1 for m2 in modules.values() for n in ast.walk(m2.tree) if isinstance(n, ast.Attribute) and n.attr == fn.name)
                if not calls or refs != len(calls):
                    continue
                idx = curn.index(new_[0]) - 1
                wraps = []
                for c in calls:
                    a = None
                    if idx < len(c.args):
                        a = c.args[idx]
                    else:
                        a = next((k.value for k in c.keywords if k.arg == new_[0]), None)
                    if isinstance(a, ast.Call) and isinstance(a.func, ast.Name) and len(a.args) == 1 and not a.keywords and simple_expr(a.args[0]):
                        wraps.append((c, a))
                if len(wraps) != len(calls) or len({w.func.id for _, w in wraps}) != 1:
                    continue
                kname = wraps[0][1].func.id
                for c, a in wraps:
                    if idx < len(c.args):
                        c.args[idx] = a.args[0]
                    else:
                        for k in c.keywords:
                            if k.arg == new_[0]:
                                k.arg, k.value = gone[0], a.args[0]
                for a_ in fn.args.args + fn.args.kwonlyargs:
                    if a_.arg == new_[0]:
                        a_.arg = gone[0]
                first = ast.Assign(targets=[ast.Name(id=new_[0], ctx=ast.Store())], value=ast.Call(func=ast.Name(id=kname, ctx=ast.Load()), args=[ast.Name(id=gone[0], ctx=ast.Load())], keywords=[]))
                k0 = 1 if fn.body and isinstance(fn.body[0], ast.Expr) and isinstance(fn.body[0].value, ast.Constant) else 0
                ast.copy_location(first, fn.body[k0] if len(fn.body) > k0 else fn)
                fn.body.insert(k0, first)
                changed = True
                if log is not None:
                    log.append(f'`{fq}`: `{new_[0]} = {kname}({gone[0]})` computed by the callers put back into the callee')
    for mname, mod in modules.items():
        for top in list(mod.tree.body):
            targets = []
            if isinstance(top, ast.FunctionDef) and top.name.startswith('_'):
                targets.append((f'{mname}:{top.name}', top, top.name, False))
            elif isinstance(top, ast.ClassDef) and top.name.startswith('_'):
                for s2 in top.body:
                    if isinstance(s2, ast.FunctionDef) and s2.name == '__init__':
                        targets.append((f'{mname}:{top.name}.__init__', s2, top.name, True))
            if isinstance(top, ast.ClassDef):
                for s2 in top.body:
                    if isinstance(s2, ast.FunctionDef) and s2.name.startswith('_') and not s2.name.startswith('__') and method_names.get(s2.name) == 1 \
                            and not any(isinstance(d, ast.Name) and d.id in ('staticmethod', 'classmethod', 'property') for d in s2.decorator_list):
                        targets.append((f'{mname}:{top.name}.{s2.name}', s2, s2.name, 'method'))
            for fq, fn, callname, is_ctor in targets:
                ref = sigs.get(fq)
                if ref is None:
                    continue
                ref = [tuple(x) for x in ref]
                cur = cur_sig(fn)
                if cur == ref or {n for n, _ in cur} != {n for n, _ in ref} or any(k in ('vararg', 'kwarg') for _, k in cur + ref):
                    continue
                # every reference to the name in the package
                direct, partials, other = [], [], 0
                for m2 in modules.values():
                    claimed = set()
                    for c in ast.walk(m2.tree):
                        if isinstance(c, ast.Call):
                            if is_ctor == 'method':
                                if isinstance(c.func, ast.Attribute) and c.func.attr == callname:
                                    direct.append(c)
                                    claimed.add(id(c.func))
                                continue
                            if isinstance(c.func, ast.Name) and c.func.id == callname:
                                direct.append(c)
                                claimed.add(id(c.func))
                            elif isinstance(c.func, (ast.Name, ast.Attribute)) and (getattr(c.func, 'id', None) == 'partial' or getattr(c.func, 'attr', None) == 'partial') \
                                    and c.args and isinstance(c.args[0], ast.Name) and c.args[0].id == callname:
                                partials.append(c)
                                claimed.add(id(c.args[0]))
                    for n in ast.walk(m2.tree):
                        if isinstance(n, ast.Name) and n.id == callname and isinstance(n.ctx, ast.Load) and id(n) not in claimed:
                            other += 1
                        elif isinstance(n, ast.Attribute) and n.attr == callname and id(n) not in claimed:
                            other += 1
                if other:
                    continue
                plan = []
                ok = True
                for c in direct:
                    m = bind(cur, c.args, c.keywords, is_ctor)
                    if m is None:
                        ok = False
                        break
                    plan.append((c, None, m))
                for c in partials:
                    m = bind(cur, c.args[1:], c.keywords, is_ctor)
                    if m is None:
                        ok = False
                        break
                    rem_cur = [n for (n, k) in cur if k == 'pos' and n not in m][(1 if is_ctor else 0):]
                    rem_ref = [n for (n, k) in ref if k == 'pos' and n not in m][(1 if is_ctor else 0):]
                    if rem_cur != rem_ref:
                        ok = False
                        break
                    plan.append((c, 'partial', m))
                if not ok:
                    continue
                dflt = defaults_of(fn)
                ann = annotations_of(fn)
                rpos = [n for (n, k) in ref if k == 'pos']
                rkw = [n for (n, k) in ref if k == 'kwonly']
                seen_default = False
                bad = False
                for n in rpos:
                    if n in dflt:
                        seen_default = True
                    elif seen_default:
                        bad = True
                if bad:
                    continue
                fn.args = ast.arguments(posonlyargs=[], args=[ast.arg(arg=n, annotation=ann.get(n)) for n in rpos], vararg=None,
                                        kwonlyargs=[ast.arg(arg=n, annotation=ann.get(n)) for n in rkw], kw_defaults=[dflt.get(n) for n in rkw], kwarg=None,
                                        defaults=[dflt[n] for n in rpos if n in dflt])
                for (c, kind, m) in plan:
                    if kind == 'partial':
                        c.args = [c.args[0]]
                        c.keywords = [ast.keyword(arg=n, value=v) for n, v in m.items()]
                    else:
                        c.args, c.keywords = emit(ref, m, is_ctor)
                changed = True
                if log is not None:
                    log.append(f'`{fq}`: reference signature restored, {len(plan)} call(s) re-bound by name')
    if changed:
        for m in modules.values():
            ast.fix_missing_locations(m.tree)
    return changed


_PRE_MADE = set()


def lower_namedtuples(modules, log=None):
    """A NamedTuple class that is not part of the reference layout is a tuple with named positions: its constructor calls become tuple displays, and a local
    that is bound to a call result and only ever read through the field names is unpacked into one local per field (`v__field`).  Left alone when the class is
    used in any other way (isinstance, subclassing, annotations of parameters aside)."""
    _load_pinned()
    ref_classes = {fq.partition(':')[2].split('.')[0] for fq in _PINNED if '.' in fq.partition(':')[2]} | {c.partition(':')[2] for c in _load_pinned_attrs()['classes']}
    nts = {}
    for m in modules.values():
        for st in m.tree.body:
            if isinstance(st, ast.ClassDef) and st.name not in ref_classes and any(
                    (isinstance(b, ast.Name) and b.id == 'NamedTuple') or (isinstance(b, ast.Attribute) and b.attr == 'NamedTuple') for b in st.bases):
                fields, dfl = [], {}
                ok = True
                for s2 in st.body:
                    if isinstance(s2, ast.AnnAssign) and isinstance(s2.target, ast.Name):
                        fields.append(s2.target.id)
                        if s2.value is not None:
                            dfl[s2.target.id] = s2.value
                    elif isinstance(s2, ast.Expr) and isinstance(s2.value, ast.Constant):
                        continue
                    else:
                        ok = False
                if ok and fields:
                    nts[st.name] = (fields, dfl, st, m)
            elif isinstance(st, ast.Assign) and len(st.targets) == 1 and isinstance(st.targets[0], ast.Name) and st.targets[0].id not in ref_classes \
                    and isinstance(st.value, ast.Call) and (getattr(st.value.func, 'id', None) == 'namedtuple' or getattr(st.value.func, 'attr', None) == 'namedtuple') \
                    and len(st.value.args) == 2 and not st.value.keywords and isinstance(st.value.args[0], ast.Constant) and st.value.args[0].value == st.targets[0].id:
                # X = namedtuple('X', 'a b') / ['a', 'b']
                spec = st.value.args[1]
                fields = None
                if isinstance(spec, ast.Constant) and isinstance(spec.value, str):
                    fields = spec.value.replace(',', ' ').split()
                elif isinstance(spec, (ast.List, ast.Tuple)) and all(isinstance(e, ast.Constant) and isinstance(e.value, str) for e in spec.elts):
                    fields = [e.value for e in spec.elts]
                if fields:
                    nts[st.targets[0].id] = (fields, {}, st, m)
    if not nts:
        return False
    # other uses of the class name
    for name in list(nts):
        bad = False
        for m in modules.values():
            ctor_funcs = set()
            for c in ast.walk(m.tree):
                if isinstance(c, ast.Call) and isinstance(c.func, ast.Name) and c.func.id == name:
                    ctor_funcs.add(id(c.func))
                    if any(isinstance(a, ast.Starred) for a in c.args) or any(k.arg is None for k in c.keywords):
                        bad = True
            ann = set()
            for fn in ast.walk(m.tree):
                if isinstance(fn, (ast.FunctionDef,)):
                    for x in [fn.returns] + [a.annotation for a in fn.args.args + fn.args.kwonlyargs]:
                        if x is not None:
                            ann |= {id(y) for y in ast.walk(x)}
                elif isinstance(fn, ast.AnnAssign):
                    ann |= {id(y) for y in ast.walk(fn.annotation)}
            for n in ast.walk(m.tree):
                if isinstance(n, ast.Name) and n.id == name and isinstance(n.ctx, ast.Load) and id(n) not in ctor_funcs and id(n) not in ann:
                    bad = True
        if bad:
            del nts[name]
    if not nts:
        return False
    changed = False

    class _Ctor(ast.NodeTransformer):
        def visit_Call(self, node):
            self.generic_visit(node)
            if isinstance(node.func, ast.Name) and node.func.id in nts:
                fields, dfl, _, _ = nts[node.func.id]
                vals = dict(zip(fields, node.args))
                for k in node.keywords:
                    vals[k.arg] = k.value
                elts = []
                for f_ in fields:
                    if f_ in vals:
                        elts.append(vals[f_])
                    elif f_ in dfl:
                        elts.append(copy.deepcopy(dfl[f_]))
                    else:
                        return node
                return ast.copy_location(ast.Tuple(elts=elts, ctx=ast.Load()), node)
            return node
    for m in modules.values():
        before = ast.dump(m.tree)
        m.tree = _Ctor().visit(m.tree)
        if ast.dump(m.tree) != before:
            changed = True
    field_sets = {name: set(v[0]) for name, v in nts.items()}
    for m in modules.values():
        for fn in [x for x in ast.walk(m.tree) if isinstance(x, ast.FunctionDef)]:
            own = [x for x in _walk_no_defs_body(fn)]
            stores = {}
            for x in own:
                if isinstance(x, ast.Name) and isinstance(x.ctx, ast.Store):
                    stores.setdefault(x.id, []).append(x)
            for v, sts in stores.items():
                if any(a.arg == v for a in fn.args.args + fn.args.kwonlyargs):
                    continue
                asg = [x for x in own if isinstance(x, ast.Assign) and len(x.targets) == 1 and isinstance(x.targets[0], ast.Name) and x.targets[0].id == v
                       and isinstance(x.value, (ast.Call, ast.Tuple))]
                if len(asg) != len(sts) or not asg:
                    continue
                loads = [x for x in own if isinstance(x, ast.Name) and x.id == v and isinstance(x.ctx, ast.Load)]
                attrs = [x for x in own if isinstance(x, ast.Attribute) and isinstance(x.value, ast.Name) and x.value.id == v and isinstance(x.ctx, ast.Load)]
                if not loads or len(attrs) != len(loads):
                    continue
                used = {x.attr for x in attrs}
                match = [name for name, fs in field_sets.items() if used <= fs]
                if len(match) != 1:
                    continue
                fields = nts[match[0]][0]
                _PRE_MADE.add(f'{v}__')
                for a in asg:
                    a.targets = [ast.Tuple(elts=[ast.Name(id=f'{v}__{f_}', ctx=ast.Store()) for f_ in fields], ctx=ast.Store())]
                for x in attrs:
                    x.__class__ = ast.Name
                    x.id = f'{v}__{x.attr}'
                    x._fields = ast.Name._fields
                changed = True
                if log is not None:
                    log.append(f'`{v}` in {fn.name}: record of NamedTuple `{match[0]}` unpacked into one local per field')
    if changed:
        for name, (_, _, cdef, cm) in nts.items():
            if cdef in cm.tree.body:
                cm.tree.body.remove(cdef)
        for m in modules.values():
            ast.fix_missing_locations(m.tree)
    return changed


def _replace_stmt(root, old_st, new_list):
    for holder in ast.walk(root):
        for fld in ('body', 'orelse', 'finalbody'):
            lst = getattr(holder, fld, None)
            if isinstance(lst, list):
                for i, s_ in enumerate(lst):
                    if s_ is old_st:
                        lst[i:i + 1] = new_list
                        return True
        if isinstance(holder, ast.Try):
            for h in holder.handlers:
                for i, s_ in enumerate(h.body):
                    if s_ is old_st:
                        h.body[i:i + 1] = new_list
                        return True
    return False


def _walk_no_defs_body(fn):
    """nodes of a function body, nested function / class definitions excluded"""
    stack = list(fn.body)
    while stack:
        n = stack.pop()
        yield n
        for ch in ast.iter_child_nodes(n):
            if isinstance(ch, (ast.FunctionDef, ast.AsyncFunctionDef, ast.ClassDef, ast.Lambda)):
                continue
            stack.append(ch)


def lower_memo_tables(modules, log=None):
    """`try: x = TABLE[k] except (KeyError, ..): x = F(k)` with the module-level `TABLE = {v: F(v) for v in <anything>}` (never written elsewhere) is `x = F(k)`:
    the table only remembers what F returns (F is taken as a function of its argument: it is read, and must not touch anything but its locals)."""
    changed = False
    for m in modules.values():
        tables = {}
        for st in m.tree.body:
            if isinstance(st, (ast.Assign, ast.AnnAssign)):
                tg = st.targets[0] if isinstance(st, ast.Assign) and len(st.targets) == 1 else getattr(st, 'target', None)
                v = st.value
                if isinstance(tg, ast.Name) and isinstance(v, ast.DictComp) and len(v.generators) == 1 and not v.generators[0].ifs \
                        and isinstance(v.generators[0].target, ast.Name) and isinstance(v.key, ast.Name) and v.key.id == v.generators[0].target.id \
                        and isinstance(v.value, ast.Call) and isinstance(v.value.func, ast.Name) and len(v.value.args) == 1 and not v.value.keywords \
                        and isinstance(v.value.args[0], ast.Name) and v.value.args[0].id == v.key.id:
                    tables[tg.id] = v.value.func.id
        if not tables:
            continue
        for name in list(tables):
            # the function is pure-looking: a module-level def without attribute stores / global statements / calls other than builtins on its argument
            fdef = next((st for st in m.tree.body if isinstance(st, ast.FunctionDef) and st.name == tables[name]), None)
            stores = sum(1 for n in ast.walk(m.tree) if isinstance(n, ast.Name) and n.id == name and isinstance(n.ctx, (ast.Store, ast.Del)))
            writes = any(isinstance(n, (ast.Subscript, ast.Attribute)) and isinstance(n.ctx, (ast.Store, ast.Del)) and isinstance(n.value, ast.Name) and n.value.id == name for n in ast.walk(m.tree))
            impure = fdef is None or any(isinstance(n, (ast.Global, ast.Nonlocal, ast.Yield, ast.YieldFrom)) or
                                         (isinstance(n, (ast.Attribute, ast.Subscript)) and isinstance(n.ctx, (ast.Store, ast.Del))) or
                                         isinstance(n, ast.Call) for n in ast.walk(fdef))
            if stores != 1 or writes or impure:
                del tables[name]
        if not tables:
            continue

        def visit(stmts):
            nonlocal changed
            out = []
            for st in stmts:
                for fld in ('body', 'orelse', 'finalbody'):
                    sub = getattr(st, fld, None)
                    if isinstance(sub, list) and sub and isinstance(sub[0], ast.stmt):
                        setattr(st, fld, visit(sub))
                if isinstance(st, ast.Try):
                    for h in st.handlers:
                        h.body = visit(h.body)
                    if len(st.body) == 1 and len(st.handlers) == 1 and not st.orelse and not st.finalbody and isinstance(st.body[0], ast.Assign) \
                            and len(st.body[0].targets) == 1 and isinstance(st.body[0].value, ast.Subscript) and isinstance(st.body[0].value.value, ast.Name) \
                            and st.body[0].value.value.id in tables and len(st.handlers[0].body) == 1 and isinstance(st.handlers[0].body[0], ast.Assign):
                        a, b = st.body[0], st.handlers[0].body[0]
                        key = a.value.slice
                        ht = st.handlers[0].type
                        hnames = {ast.unparse(e) for e in (ht.elts if isinstance(ht, ast.Tuple) else [ht])} if ht is not None else set()
                        if ast.dump(a.targets[0]) == ast.dump(b.targets[0]) and isinstance(b.value, ast.Call) and isinstance(b.value.func, ast.Name) \
                                and b.value.func.id == tables[a.value.value.id] and len(b.value.args) == 1 and not b.value.keywords \
                                and ast.dump(b.value.args[0]) == ast.dump(key) and isinstance(key, (ast.Name, ast.Attribute)) and 'KeyError' in hnames \
                                and hnames <= {'KeyError', 'TypeError', 'LookupError'}:
                            out.append(ast.copy_location(b, st))
                            changed = True
                            if log is not None:
                                log.append(f'`{a.value.value.id}[..]` with fallback `{tables[a.value.value.id]}(..)`: the table only memoises the function')
                            continue
                out.append(st)
            return out
        m.tree.body = visit(m.tree.body)
    return changed


def fuse_phase_loops(modules, log=None):
    """`it = iter(E); for x in it: B; if C: S; break` directly followed by `for x in it: B` (the same statements B) is one loop over E whose final test fires
    once: `done = False; for x in E: B; if not done and C: S; done = True`."""
    changed = False
    counter = [0]

    def dumps(stmts):
        return [ast.dump(st) for st in stmts]

    def visit(stmts):
        nonlocal changed
        for st in stmts:
            for fld in ('body', 'orelse', 'finalbody'):
                sub = getattr(st, fld, None)
                if isinstance(sub, list) and sub and isinstance(sub[0], ast.stmt):
                    setattr(st, fld, visit(sub))
            if isinstance(st, ast.Try):
                for h in st.handlers:
                    h.body = visit(h.body)
        out = list(stmts)
        i = 0
        while i + 1 < len(out):
            a, b = out[i], out[i + 1]
            if isinstance(a, ast.For) and isinstance(b, ast.For) and isinstance(a.iter, ast.Name) and isinstance(b.iter, ast.Name) and a.iter.id == b.iter.id \
                    and not a.orelse and not b.orelse and ast.dump(a.target) == ast.dump(b.target) and a.body and isinstance(a.body[-1], ast.If) \
                    and not a.body[-1].orelse and a.body[-1].body and isinstance(a.body[-1].body[-1], ast.Break) \
                    and dumps(a.body[:-1]) == dumps(b.body) \
                    and not any(isinstance(x, ast.Break) for s_ in a.body[:-1] for x in ast.walk(s_)) \
                    and not any(isinstance(x, ast.Break) for s_ in a.body[-1].body[:-1] for x in ast.walk(s_)):
                nm = a.iter.id
                defs = [k for k, s_ in enumerate(out[:i]) if isinstance(s_, ast.Assign) and len(s_.targets) == 1 and isinstance(s_.targets[0], ast.Name) and s_.targets[0].id == nm]
                uses = sum(1 for s_ in out for x in ast.walk(s_) if isinstance(x, ast.Name) and x.id == nm)
                if len(defs) == 1 and uses == 3 and isinstance(out[defs[0]].value, ast.Call) and isinstance(out[defs[0]].value.func, ast.Name) \
                        and out[defs[0]].value.func.id == 'iter' and len(out[defs[0]].value.args) == 1:
                    counter[0] += 1
                    flag = f'__phase{counter[0]}'
                    E = out[defs[0]].value.args[0]
                    last = a.body[-1]
                    new_if = ast.If(test=ast.BoolOp(op=ast.And(), values=[ast.UnaryOp(op=ast.Not(), operand=ast.Name(id=flag, ctx=ast.Load())), last.test]),
                                    body=last.body[:-1] + [ast.Assign(targets=[ast.Name(id=flag, ctx=ast.Store())], value=ast.Constant(value=True))], orelse=[])
                    loop = ast.For(target=a.target, iter=E, body=a.body[:-1] + [new_if], orelse=[])
                    init = ast.Assign(targets=[ast.Name(id=flag, ctx=ast.Store())], value=ast.Constant(value=False))
                    for n_ in (loop, init):
                        ast.copy_location(n_, a)
                        ast.fix_missing_locations(n_)
                    out[i:i + 2] = [init, loop]
                    del out[defs[0]]
                    changed = True
                    if log is not None:
                        log.append(f'two loops over the iterator `{nm}` fused into one with a one-shot flag')
                    continue
            i += 1
        return out
    for m in modules.values():
        m.tree.body = visit(m.tree.body)
    return changed


def lower_local_raises(modules, log=None):
    """An exception class that is not part of the reference layout, raised inside a `try` body and caught by a handler of that very `try` (which does not look
    at the exception object and ends by leaving), is an internal signal: the `raise` is replaced by the handler's statements and the handler removed.  Applied
    after helper expansion (the raise usually sits in a helper).  Nothing is done when anything called from the `try` body could raise the class as well."""
    _load_pinned()
    ref_classes = {fq.partition(':')[2].split('.')[0] for fq in _PINNED if '.' in fq.partition(':')[2]} | {c.partition(':')[2] for c in _load_pinned_attrs()['classes']}
    changed = False
    new_exc = {}
    for m in modules.values():
        for st in m.tree.body:
            if isinstance(st, ast.ClassDef) and st.name not in ref_classes and any(
                    (isinstance(b, ast.Name) and b.id in ('Exception', 'BaseException')) for b in st.bases) \
                    and not any(isinstance(x, ast.FunctionDef) for x in st.body):
                new_exc[st.name] = m
    if not new_exc:
        return False

    def raised_class(r):
        e = r.exc
        if isinstance(e, ast.Call):
            e = e.func
        return e.id if isinstance(e, ast.Name) else None
    raisers = {}         # class -> names of functions that contain a raise of it
    for m in modules.values():
        for fn in ast.walk(m.tree):
            if isinstance(fn, (ast.FunctionDef, ast.Lambda)):
                for x in ast.walk(fn):
                    if isinstance(x, ast.Raise) and x.exc is not None and raised_class(x) in new_exc:
                        raisers.setdefault(raised_class(x), set()).add(getattr(fn, 'name', '<lambda>'))

    def leaving(stmts):
        return bool(stmts) and isinstance(stmts[-1], (ast.Return, ast.Raise, ast.Break, ast.Continue))

    def replace_in(stmts, cls, hb, in_loop, ok, payload_name=None):
        out = []
        for st in stmts:
            if isinstance(st, ast.Raise) and st.exc is not None and raised_class(st) == cls:
                if in_loop and any(isinstance(x, (ast.Break, ast.Continue)) for x in hb):
                    ok[0] = False
                hb2 = copy.deepcopy(hb)
                if payload_name is not None:
                    tup = ast.Tuple(elts=list(st.exc.args), ctx=ast.Load())

                    class _P(ast.NodeTransformer):
                        def visit_Attribute(self, node):
                            if isinstance(node.value, ast.Name) and node.value.id == payload_name and node.attr == 'args':
                                return ast.copy_location(copy.deepcopy(tup), node)
                            self.generic_visit(node)
                            return node
                    hb2 = [_P().visit(b) for b in hb2]
                    # `a, b = (x, y)` at the head of the copied handler, the names used by the rest of it only: the values in place of the names
                    while hb2 and isinstance(hb2[0], ast.Assign) and len(hb2[0].targets) == 1 and isinstance(hb2[0].targets[0], ast.Tuple) and isinstance(hb2[0].value, ast.Tuple) \
                            and len(hb2[0].targets[0].elts) == len(hb2[0].value.elts) and all(isinstance(e, ast.Name) for e in hb2[0].targets[0].elts) \
                            and all(isinstance(e, ast.Constant) for e in hb2[0].value.elts):
                        names_ = {t_.id: v_ for t_, v_ in zip(hb2[0].targets[0].elts, hb2[0].value.elts)}
                        if any(isinstance(x, ast.Name) and x.id in names_ and isinstance(x.ctx, (ast.Store, ast.Del)) for b in hb2[1:] for x in ast.walk(b)):
                            break

                        class _C(ast.NodeTransformer):
                            def visit_Name(self, node):
                                if node.id in names_ and isinstance(node.ctx, ast.Load):
                                    return ast.copy_location(copy.deepcopy(names_[node.id]), node)
                                return node
                        hb2 = [_C().visit(b) for b in hb2[1:]]
                out.extend(hb2)
                continue
            if isinstance(st, (ast.FunctionDef, ast.ClassDef, ast.AsyncFunctionDef)):
                out.append(st)
                continue
            if isinstance(st, ast.Try) and any(isinstance(h.type, ast.Name) and h.type.id in (cls, 'Exception', 'BaseException') or h.type is None for h in st.handlers):
                # a nested try that may catch it first: its body is left alone (and must not raise the class)
                if any(isinstance(x, ast.Raise) and x.exc is not None and raised_class(x) == cls for b in st.body for x in ast.walk(b)):
                    ok[0] = False
                out.append(st)
                continue
            loop_here = isinstance(st, (ast.For, ast.While))
            for fld in ('body', 'orelse', 'finalbody'):
                sub = getattr(st, fld, None)
                if isinstance(sub, list) and sub and isinstance(sub[0], ast.stmt):
                    setattr(st, fld, replace_in(sub, cls, hb, in_loop or (loop_here and fld == 'body'), ok, payload_name))
            if isinstance(st, ast.Try):
                for h in st.handlers:
                    h.body = replace_in(h.body, cls, hb, in_loop, ok, payload_name)
            out.append(st)
        return out

    def visit(stmts):
        nonlocal changed
        out = []
        for st in stmts:
            for fld in ('body', 'orelse', 'finalbody'):
                sub = getattr(st, fld, None)
                if isinstance(sub, list) and sub and isinstance(sub[0], ast.stmt):
                    setattr(st, fld, visit(sub))
            if isinstance(st, ast.Try):
                for h in st.handlers:
                    h.body = visit(h.body)
                for h in list(st.handlers):
                    if not (isinstance(h.type, ast.Name) and h.type.id in new_exc):
                        continue
                    cls = h.type.id
                    args_only = False
                    if h.name and any(isinstance(x, ast.Name) and x.id == h.name for b in h.body for x in ast.walk(b)):
                        # the exception object may be looked at through `.args` only (its payload)
                        uses = [x for b in h.body for x in ast.walk(b) if isinstance(x, ast.Name) and x.id == h.name]
                        attrs = [x for b in h.body for x in ast.walk(b) if isinstance(x, ast.Attribute) and isinstance(x.value, ast.Name) and x.value.id == h.name
                                 and x.attr == 'args' and isinstance(x.ctx, ast.Load)]
                        if len(attrs) != len(uses):
                            continue
                        args_only = True
                    if not leaving(h.body):
                        continue
                    # earlier handlers must not catch it first
                    idx = st.handlers.index(h)
                    if any(hh.type is None or (isinstance(hh.type, ast.Name) and hh.type.id in ('Exception', 'BaseException')) for hh in st.handlers[:idx]):
                        continue
                    sites = [x for b in st.body for x in ast.walk(b) if isinstance(x, ast.Raise) and x.exc is not None and raised_class(x) == cls]
                    if not sites:
                        continue
                    called = {(c.func.id if isinstance(c.func, ast.Name) else c.func.attr if isinstance(c.func, ast.Attribute) else None)
                              for b in st.body for c in ast.walk(b) if isinstance(c, ast.Call)}
                    if called & raisers.get(cls, set()):
                        continue
                    ok = [True]
                    if args_only and not all(isinstance(x.exc, ast.Call) and not x.exc.keywords and not any(isinstance(a_, ast.Starred) for a_ in x.exc.args) for x in sites):
                        continue
                    trial = replace_in(copy.deepcopy(st.body), cls, h.body, False, ok, h.name if args_only else None)
                    if not ok[0]:
                        continue
                    st.body = trial
                    st.handlers.remove(h)
                    changed = True
                    if log is not None:
                        log.append(f'internal signal `{cls}`: raise replaced by the statements of its handler')
                if not st.handlers and not st.finalbody:
                    out.extend(st.body + st.orelse)
                    continue
            out.append(st)
        return out
    for m in modules.values():
        m.tree.body = visit(m.tree.body)
    if changed:
        for m in modules.values():
            ast.fix_missing_locations(m.tree)
    return changed


def thread_sentinel_tests(modules, log=None):
    """An if / elif chain in which every branch ends by binding one local to a literal (a tuple display, a constant, None), directly followed by a test of that
    local against None (or of its truth): each branch knows the outcome - the statements of the test's taken arm are appended to the branch and the test goes.
    A tuple display that is then only unpacked (`a, b = x`) into names used by the appended statements is substituted."""
    changed = False

    def literal_kind(v):
        """(is_none, truthy) or None"""
        if isinstance(v, ast.Constant):
            return (v.value is None, bool(v.value))
        if isinstance(v, (ast.Tuple, ast.List)) and all(isinstance(e, ast.Constant) for e in v.elts):
            return (False, bool(v.elts))
        return None

    def leaves(chain, name, out):
        """the statement lists that end the chain's paths; False when a path does not end with `name = literal`"""
        for blk in (chain.body, chain.orelse):
            if not blk:
                return False
            last = blk[-1]
            if isinstance(last, ast.If) and not any(isinstance(x, ast.Name) and x.id == name for s_ in blk[:-1] for x in ast.walk(s_)):
                if not leaves(last, name, out):
                    return False
            elif isinstance(last, ast.Assign) and len(last.targets) == 1 and isinstance(last.targets[0], ast.Name) and last.targets[0].id == name \
                    and literal_kind(last.value) is not None and not any(isinstance(x, ast.Name) and x.id == name for s_ in blk[:-1] for x in ast.walk(s_)):
                out.append(blk)
            elif isinstance(last, ast.Assign) and len(last.targets) == 1 and isinstance(last.targets[0], ast.Tuple) and isinstance(last.value, ast.Tuple) \
                    and len(last.targets[0].elts) == len(last.value.elts) and all(isinstance(e, ast.Name) for e in last.targets[0].elts) \
                    and [e.id for e in last.targets[0].elts].count(name) == 1 \
                    and literal_kind(last.value.elts[[e.id for e in last.targets[0].elts].index(name)]) is not None \
                    and not any(isinstance(x, ast.Name) and x.id in {e.id for e in last.targets[0].elts} for v_ in last.value.elts for x in ast.walk(v_)) \
                    and not any(isinstance(x, ast.Name) and x.id == name for s_ in blk[:-1] for x in ast.walk(s_)):
                out.append(blk)
            else:
                return False
        return True

    def outcome(test, name):
        """f(is_none, truthy) -> bool for the recognised tests of `name`"""
        t, neg = test, False
        while isinstance(t, ast.UnaryOp) and isinstance(t.op, ast.Not):
            t, neg = t.operand, not neg
        if isinstance(t, ast.Name) and t.id == name:
            return lambda n, tr: tr != neg
        if isinstance(t, ast.Compare) and len(t.ops) == 1 and isinstance(t.left, ast.Name) and t.left.id == name and isinstance(t.comparators[0], ast.Constant) \
                and t.comparators[0].value is None and isinstance(t.ops[0], (ast.Is, ast.IsNot)):
            isnot = isinstance(t.ops[0], ast.IsNot)
            return lambda n, tr: ((not n) if isnot else n) != neg
        return None

    tables_cur = [{}]

    def simplify(blk, name):
        # `TABLE['k']` for a module-level literal dict bound once -> the literal it holds
        tabs = tables_cur[0]
        if tabs:
            class _T(ast.NodeTransformer):
                def visit_Subscript(self, node):
                    self.generic_visit(node)
                    if isinstance(node.value, ast.Name) and node.value.id in tabs and isinstance(node.slice, ast.Constant) and isinstance(node.ctx, ast.Load):
                        d_ = tabs[node.value.id]
                        for k_, v_ in zip(d_.keys, d_.values):
                            if isinstance(k_, ast.Constant) and k_.value == node.slice.value and type(k_.value) is type(node.slice.value):
                                return ast.copy_location(copy.deepcopy(v_), node)
                    return node
            blk = [_T().visit(s_) for s_ in blk]
        # `a, b = (c1, c2); REST(a, b)` with constants, a and b not rebound in REST and REST leaving -> REST(c1, c2)
        for i in range(len(blk) - 1):
            a = blk[i]
            if isinstance(a, ast.Assign) and len(a.targets) == 1 and isinstance(a.targets[0], ast.Tuple) and isinstance(a.value, ast.Tuple) \
                    and len(a.targets[0].elts) == len(a.value.elts) and all(isinstance(e, ast.Name) for e in a.targets[0].elts) \
                    and all(isinstance(e, ast.Constant) for e in a.value.elts):
                rest = blk[i + 1:]
                names_ = {t_.id: v_ for t_, v_ in zip(a.targets[0].elts, a.value.elts)}
                if rest and isinstance(rest[-1], (ast.Return, ast.Raise)) and \
                        not any(isinstance(x, ast.Name) and x.id in names_ and isinstance(x.ctx, (ast.Store, ast.Del)) for s_ in rest for x in ast.walk(s_)):
                    class _C2(ast.NodeTransformer):
                        def visit_Name(self, node):
                            if node.id in names_ and isinstance(node.ctx, ast.Load):
                                return ast.copy_location(copy.deepcopy(names_[node.id]), node)
                            return node
                    return blk[:i] + [_C2().visit(s_) for s_ in rest]
        # `x = (c1, c2); a, b = x; REST(a, b)` -> REST(c1, c2) when x, a, b are not used otherwise in REST
        for i in range(len(blk) - 1):
            a, b = blk[i], blk[i + 1]
            if isinstance(a, ast.Assign) and len(a.targets) == 1 and isinstance(a.targets[0], ast.Name) and a.targets[0].id == name and isinstance(a.value, ast.Tuple) \
                    and isinstance(b, ast.Assign) and len(b.targets) == 1 and isinstance(b.targets[0], ast.Tuple) and isinstance(b.value, ast.Name) and b.value.id == name \
                    and len(b.targets[0].elts) == len(a.value.elts) and all(isinstance(e, ast.Name) for e in b.targets[0].elts) \
                    and all(isinstance(e, ast.Constant) for e in a.value.elts):
                rest = blk[i + 2:]
                if any(isinstance(x, ast.Name) and x.id == name for s_ in rest for x in ast.walk(s_)):
                    return blk
                names_ = {t_.id: v_ for t_, v_ in zip(b.targets[0].elts, a.value.elts)}
                if any(isinstance(x, ast.Name) and x.id in names_ and isinstance(x.ctx, (ast.Store, ast.Del)) for s_ in rest for x in ast.walk(s_)):
                    return blk
                if not rest or not isinstance(rest[-1], (ast.Return, ast.Raise)):
                    return blk

                class _C(ast.NodeTransformer):
                    def visit_Name(self, node):
                        if node.id in names_ and isinstance(node.ctx, ast.Load):
                            return ast.copy_location(copy.deepcopy(names_[node.id]), node)
                        return node
                return blk[:i] + [_C().visit(s_) for s_ in rest]
        return blk

    def visit(stmts, fn):
        nonlocal changed
        for st in stmts:
            f2 = st if isinstance(st, (ast.FunctionDef, ast.AsyncFunctionDef)) else fn
            for fld in ('body', 'orelse', 'finalbody'):
                sub = getattr(st, fld, None)
                if isinstance(sub, list) and sub and isinstance(sub[0], ast.stmt):
                    setattr(st, fld, visit(sub, f2))
            if isinstance(st, ast.Try):
                for h in st.handlers:
                    h.body = visit(h.body, f2)
        out = list(stmts)
        i = 0
        while i + 1 < len(out):
            a, b = out[i], out[i + 1]
            if isinstance(a, ast.If) and isinstance(b, ast.If) and fn is not None:
                nm = None
                t = b.test
                for x in ast.walk(t):
                    if isinstance(x, ast.Name):
                        nm = x.id
                        break
                oc = outcome(t, nm) if nm else None
                lv = []
                if oc is not None and leaves(a, nm, lv) and len(lv) >= 2:
                    # the name is dead after the test unless the arms use it: fine either way (the binding stays in the leaf)
                    for blk in lv:
                        last_ = blk[-1]
                        if isinstance(last_.targets[0], ast.Tuple):
                            # `flag, value = (True, E)`: split, the flag last
                            names_ = [e.id for e in last_.targets[0].elts]
                            k_ = names_.index(nm)
                            singles = [ast.copy_location(ast.Assign(targets=[t_], value=v_), last_) for j_, (t_, v_) in enumerate(zip(last_.targets[0].elts, last_.value.elts)) if j_ != k_]
                            singles.append(ast.copy_location(ast.Assign(targets=[last_.targets[0].elts[k_]], value=last_.value.elts[k_]), last_))
                            blk[-1:] = singles
                        n_, tr_ = literal_kind(blk[-1].value)
                        arm = copy.deepcopy(b.body if oc(n_, tr_) else b.orelse)
                        lit_ = blk[-1].value
                        if isinstance(lit_, ast.Constant) and not any(isinstance(x, ast.Name) and x.id == nm and isinstance(x.ctx, (ast.Store, ast.Del)) for s_ in arm for x in ast.walk(s_)):
                            class _K(ast.NodeTransformer):
                                def visit_Name(self, node):
                                    if node.id == nm and isinstance(node.ctx, ast.Load):
                                        return ast.copy_location(ast.Constant(value=lit_.value), node)
                                    return node
                            arm = [_K().visit(s_) for s_ in arm]
                        blk.extend(arm)
                        blk[:] = simplify(blk, nm)
                        # the binding itself goes when nothing reads it any more in this leaf and the leaf leaves
                        if blk and isinstance(blk[-1], (ast.Return, ast.Raise)):
                            for k, s_ in enumerate(blk):
                                if isinstance(s_, ast.Assign) and len(s_.targets) == 1 and isinstance(s_.targets[0], ast.Name) and s_.targets[0].id == nm \
                                        and not any(isinstance(x, ast.Name) and x.id == nm and isinstance(x.ctx, ast.Load) for s2 in blk[k + 1:] for x in ast.walk(s2)):
                                    del blk[k]
                                    break
                        if not blk:
                            blk.append(ast.copy_location(ast.Pass(), a))
                    del out[i + 1]
                    changed = True
                    if log is not None:
                        log.append(f'test of `{nm}` after an if-chain binding it to literals: threaded into the branches')
                    continue
            i += 1
        return out
    for m in modules.values():
        stores_ = {}
        for n_ in ast.walk(m.tree):
            if isinstance(n_, ast.Name) and isinstance(n_.ctx, (ast.Store, ast.Del)):
                stores_[n_.id] = stores_.get(n_.id, 0) + 1
        tables_cur[0] = {st.targets[0].id: st.value for st in m.tree.body if isinstance(st, ast.Assign) and len(st.targets) == 1 and isinstance(st.targets[0], ast.Name)
                         and isinstance(st.value, ast.Dict) and stores_.get(st.targets[0].id) == 1 and all(isinstance(k_, ast.Constant) for k_ in st.value.keys)
                         and all(isinstance(v_, (ast.Constant, ast.Tuple)) and all(isinstance(x_, (ast.Constant, ast.Tuple, ast.Load)) for x_ in ast.walk(v_)) for v_ in st.value.values)}
        m.tree.body = visit(m.tree.body, None)
    if changed:
        for m in modules.values():
            ast.fix_missing_locations(m.tree)
    return changed


def undo_callable_objects(modules, log=None):
    """A module-level function `f` of the reference layout that is gone while the module binds `f = K(<constants>)` with K a new class whose __init__ only stores
    its arguments and whose __call__ has f's parameters: `f` is K.__call__ with the stored values in place of the attributes."""
    _load_pinned()
    changed = False
    for mname, m in modules.items():
        defined = {st.name for st in m.tree.body if isinstance(st, (ast.FunctionDef, ast.ClassDef))}
        for st in list(m.tree.body):
            if not (isinstance(st, ast.Assign) and len(st.targets) == 1 and isinstance(st.targets[0], ast.Name) and isinstance(st.value, ast.Call)
                    and isinstance(st.value.func, ast.Name)):
                continue
            fname, kname = st.targets[0].id, st.value.func.id
            if f'{mname}:{fname}' not in _PINNED or fname in defined:
                continue
            K = next((k for k in m.tree.body if isinstance(k, ast.ClassDef) and k.name == kname), None)
            if K is None or K.bases or any(fq.startswith(f'{mname}:{kname}.') for fq in _PINNED):
                continue
            if sum(1 for m2 in modules.values() for n in ast.walk(m2.tree) if isinstance(n, ast.Name) and n.id == kname) != 1:
                continue
            meth = {s2.name: s2 for s2 in K.body if isinstance(s2, ast.FunctionDef)}
            if set(meth) - {'__init__', '__call__'} or '__call__' not in meth:
                continue
            call, init = meth['__call__'], meth.get('__init__')
            ref_params = _PINNED_META[f'{mname}:{fname}'][0]
            cparams = [a.arg for a in call.args.args][1:]
            if cparams != ref_params or call.args.vararg or call.args.kwarg or call.args.kwonlyargs:
                continue
            cargs = st.value
            if any(isinstance(a, ast.Starred) for a in cargs.args) or any(k.arg is None for k in cargs.keywords):
                continue
            if not all(all(isinstance(x, (ast.Constant, ast.Tuple, ast.Name, ast.expr_context, ast.Load)) for x in ast.walk(a)) for a in list(cargs.args) + [k.value for k in cargs.keywords]):
                continue
            attr_map = {}
            if init is not None:
                ps = [a.arg for a in init.args.args][1:]
                amap = dict(zip(ps, cargs.args))
                for k in cargs.keywords:
                    amap[k.arg] = k.value
                if set(amap) != set(ps):
                    continue
                sn = init.args.args[0].arg
                ok = True
                for b in init.body:
                    if isinstance(b, ast.Expr) and isinstance(b.value, ast.Constant):
                        continue
                    pairs = []
                    if isinstance(b, ast.Assign) and len(b.targets) == 1:
                        if isinstance(b.targets[0], ast.Tuple) and isinstance(b.value, ast.Tuple) and len(b.targets[0].elts) == len(b.value.elts):
                            pairs = list(zip(b.targets[0].elts, b.value.elts))
                        else:
                            pairs = [(b.targets[0], b.value)]
                    if not pairs:
                        ok = False
                        break
                    for t_, v_ in pairs:
                        if isinstance(t_, ast.Attribute) and isinstance(t_.value, ast.Name) and t_.value.id == sn and isinstance(v_, ast.Name) and v_.id in amap:
                            attr_map[t_.attr] = amap[v_.id]
                        else:
                            ok = False
                if not ok:
                    continue
            sn_c = call.args.args[0].arg
            body = [_SubstAttr(sn_c, attr_map, {}).visit(copy.deepcopy(b)) for b in call.body]
            if any(isinstance(x, ast.Name) and x.id == sn_c for b in body for x in ast.walk(b)):
                continue
            fn = ast.FunctionDef(name=fname, args=ast.arguments(posonlyargs=[], args=[ast.arg(arg=p_) for p_ in cparams], vararg=None, kwonlyargs=[], kw_defaults=[],
                                                                  kwarg=None, defaults=list(call.args.defaults)), body=body, decorator_list=[], returns=None, type_comment=None)
            ast.copy_location(fn, call)
            idx = m.tree.body.index(st)
            m.tree.body[idx] = fn
            m.tree.body.remove(K)
            ast.fix_missing_locations(fn)
            changed = True
            if log is not None:
                log.append(f'`{fname} = {kname}(..)`: the callable object read as the function `{fname}` of the reference layout')
    return changed


def undo_partial_closures(modules, log=None):
    """`name = partial(H, a1, .., an)` inside a function F, where `F.name` is a nested function of the reference layout that is gone and H a new module-level
    function taking n more parameters than it: the closure was turned into explicit state - it is `def name(<its parameters>): return H(t1, .., tn, <its
    parameters>)` with the partial's arguments evaluated once into t1..tn at that point (what partial does)."""
    _load_pinned()
    changed = False
    n_ = [0]
    for mname, m in modules.items():
        top_funcs = {st.name: st for st in m.tree.body if isinstance(st, ast.FunctionDef)}
        scopes = [(st.name, st) for st in m.tree.body if isinstance(st, ast.FunctionDef)] + \
                 [(f'{c.name}.{s2.name}', s2) for c in m.tree.body if isinstance(c, ast.ClassDef) for s2 in c.body if isinstance(s2, ast.FunctionDef)]
        for qual, F in scopes:
            nested_have = {x.name for x in ast.walk(F) if isinstance(x, ast.FunctionDef) and x is not F}
            for holder in ast.walk(F):
                for fld in ('body', 'orelse', 'finalbody'):
                    body = getattr(holder, fld, None)
                    if not isinstance(body, list):
                        continue
                    for i, st in enumerate(body):
                        if not (isinstance(st, ast.Assign) and len(st.targets) == 1 and isinstance(st.targets[0], ast.Name) and isinstance(st.value, ast.Call)
                                and (getattr(st.value.func, 'id', None) == 'partial' or getattr(st.value.func, 'attr', None) == 'partial')
                                and st.value.args and isinstance(st.value.args[0], ast.Name) and not st.value.keywords):
                            continue
                        name = st.targets[0].id
                        fq = f'{mname}:{qual}.{name}'
                        H = top_funcs.get(st.value.args[0].id)
                        if fq not in _PINNED or name in nested_have or H is None or f'{mname}:{H.name}' in _PINNED:
                            continue
                        ref_params = _PINNED_META[fq][0]
                        hp = [a.arg for a in H.args.args]
                        pre_args = st.value.args[1:]
                        if H.args.vararg or H.args.kwarg or H.args.kwonlyargs or len(hp) != len(pre_args) + len(ref_params) or any(isinstance(a, ast.Starred) for a in pre_args):
                            continue
                        new = []
                        call_args = []
                        for a in pre_args:
                            if isinstance(a, (ast.Name, ast.Constant)):
                                call_args.append(copy.deepcopy(a))
                            else:
                                n_[0] += 1
                                t = f'_pc{n_[0]}'
                                new.append(ast.copy_location(ast.Assign(targets=[ast.Name(id=t, ctx=ast.Store())], value=a), st))
                                call_args.append(ast.Name(id=t, ctx=ast.Load()))
                        call_args += [ast.Name(id=p_, ctx=ast.Load()) for p_ in ref_params]
                        d = ast.FunctionDef(name=name, args=ast.arguments(posonlyargs=[], args=[ast.arg(arg=p_) for p_ in ref_params], vararg=None, kwonlyargs=[],
                                                                           kw_defaults=[], kwarg=None, defaults=[]),
                                            body=[ast.Return(value=ast.Call(func=ast.Name(id=H.name, ctx=ast.Load()), args=call_args, keywords=[]))],
                                            decorator_list=[], returns=None, type_comment=None)
                        ast.copy_location(d, st)
                        new.append(d)
                        for x in new:
                            ast.fix_missing_locations(x)
                        body[i:i + 1] = new
                        changed = True
                        if log is not None:
                            log.append(f'`{name} = partial({H.name}, ..)` in {qual}: read as the nested function `{name}` of the reference layout')
                        break
    return changed


def undo_function_objects(modules, log=None):
    """A module-level function `f(p1..pn)` of the reference layout that is gone while a new class K has an __init__ with exactly f's parameters (each stored in an
    attribute) and one further method `m(self)`, and K is only ever used as `K(args).m()`: f is m with the parameters in place of the attributes."""
    _load_pinned()
    changed = False
    for mname, m in modules.items():
        defined = {st.name for st in m.tree.body if isinstance(st, (ast.FunctionDef, ast.ClassDef))} | \
            {t.id for st in m.tree.body if isinstance(st, ast.Assign) for t in st.targets if isinstance(t, ast.Name)}
        missing = [fq.partition(':')[2] for fq in _PINNED if fq.startswith(mname + ':') and '.' not in fq.partition(':')[2] and fq.partition(':')[2] not in defined]
        if not missing:
            continue
        for K in [k for k in m.tree.body if isinstance(k, ast.ClassDef)]:
            if K.bases or any(fq.startswith(f'{mname}:{K.name}.') for fq in _PINNED):
                continue
            meth = {s2.name: s2 for s2 in K.body if isinstance(s2, ast.FunctionDef)}
            others = [n_ for n_ in meth if n_ != '__init__']
            if '__init__' not in meth or len(others) != 1 or meth[others[0]].decorator_list or len(meth[others[0]].args.args) != 1:
                continue
            init, mm = meth['__init__'], meth[others[0]]
            if init.args.vararg or init.args.kwarg or init.args.kwonlyargs or mm.args.vararg or mm.args.kwarg or mm.args.kwonlyargs:
                continue
            ps = [a.arg for a in init.args.args][1:]
            cand = [f_ for f_ in missing if _PINNED_META[f'{mname}:{f_}'][0] == ps]
            if len(cand) != 1:
                continue
            fname = cand[0]
            sn = init.args.args[0].arg
            attr_map = {}
            ok = True
            for b in init.body:
                if isinstance(b, ast.Expr) and isinstance(b.value, ast.Constant):
                    continue
                if isinstance(b, ast.Assign) and len(b.targets) == 1 and isinstance(b.targets[0], ast.Attribute) and isinstance(b.targets[0].value, ast.Name) \
                        and b.targets[0].value.id == sn and isinstance(b.value, ast.Name) and b.value.id in ps:
                    attr_map[b.targets[0].attr] = ast.Name(id=b.value.id, ctx=ast.Load())
                else:
                    ok = False
            if not ok or len(attr_map) != len(ps):
                continue
            # every use of K: K(..).m()
            uses = [n for m2 in modules.values() for n in ast.walk(m2.tree) if isinstance(n, ast.Name) and n.id == K.name]
            calls = [c for m2 in modules.values() for c in ast.walk(m2.tree) if isinstance(c, ast.Call) and not c.args and not c.keywords and isinstance(c.func, ast.Attribute)
                     and c.func.attr == mm.name and isinstance(c.func.value, ast.Call) and isinstance(c.func.value.func, ast.Name) and c.func.value.func.id == K.name]
            if not calls or len(calls) != len(uses):
                continue
            sn_m = mm.args.args[0].arg
            # attribute stores in m become stores of the parameter (a local of f)
            body = copy.deepcopy(mm.body)
            for b in body:
                for x in ast.walk(b):
                    if isinstance(x, ast.Attribute) and isinstance(x.value, ast.Name) and x.value.id == sn_m and x.attr in attr_map:
                        nm_ = attr_map[x.attr].id
                        ctx_ = x.ctx
                        x.__class__ = ast.Name
                        x.id = nm_
                        x.ctx = ctx_
                        x._fields = ast.Name._fields
            if any(isinstance(x, ast.Name) and x.id == sn_m for b in body for x in ast.walk(b)):
                continue
            fn = ast.FunctionDef(name=fname, args=ast.arguments(posonlyargs=[], args=[ast.arg(arg=p_) for p_ in ps], vararg=None, kwonlyargs=[], kw_defaults=[],
                                                                  kwarg=None, defaults=list(init.args.defaults)), body=body, decorator_list=[], returns=None, type_comment=None)
            ast.copy_location(fn, mm)
            for c in calls:
                inner = c.func.value
                c.func = ast.copy_location(ast.Name(id=fname, ctx=ast.Load()), c)
                c.args, c.keywords = inner.args, inner.keywords
            idx = m.tree.body.index(K)
            m.tree.body[idx] = fn
            ast.fix_missing_locations(m.tree)
            changed = True
            if log is not None:
                log.append(f'`{K.name}(..).{mm.name}()` read as the function `{fname}(..)` of the reference layout')
    return changed


def undo_state_objects(modules, log=None):
    """`self.m = K().meth` in the __init__ of a class of the reference layout, where `m` is a method the class had in the reference and K a new class that is
    instantiated nowhere else: K's method and state were carved out of the class - they are put back (K.meth as method m, K's __init__ statements in place of
    the assignment).  Only when K takes no constructor arguments and none of its member names exists in the class."""
    _load_pinned()
    changed = False
    for mname, m in modules.items():
        for C in [st for st in m.tree.body if isinstance(st, ast.ClassDef)]:
            pinned_m = {fq.partition(':')[2].split('.')[1].split('#')[0] for fq in _PINNED if fq.startswith(f'{mname}:{C.name}.') and fq.count('.') >= 1
                        and len(fq.partition(':')[2].split('.')) == 2}
            if not pinned_m:
                continue
            have = {st.name for st in C.body if isinstance(st, ast.FunctionDef)}
            init = next((st for st in C.body if isinstance(st, ast.FunctionDef) and st.name == '__init__'), None)
            if init is None:
                continue
            for st in list(init.body):
                if not (isinstance(st, ast.Assign) and len(st.targets) == 1 and isinstance(st.targets[0], ast.Attribute) and isinstance(st.targets[0].value, ast.Name)
                        and st.targets[0].value.id == init.args.args[0].arg and isinstance(st.value, ast.Attribute) and isinstance(st.value.value, ast.Call)
                        and isinstance(st.value.value.func, ast.Name) and not st.value.value.args and not st.value.value.keywords):
                    continue
                mname_ = st.targets[0].attr
                kname, kmeth = st.value.value.func.id, st.value.attr
                if mname_ not in pinned_m or mname_ in have:
                    continue
                K = next((k for k in m.tree.body if isinstance(k, ast.ClassDef) and k.name == kname), None)
                if K is None or K.bases or any(fq.startswith(f'{mname}:{kname}.') for fq in _PINNED):
                    continue
                uses = sum(1 for m2 in modules.values() for n in ast.walk(m2.tree) if isinstance(n, ast.Name) and n.id == kname)
                if uses != 1:
                    continue
                kmeths = {s2.name: s2 for s2 in K.body if isinstance(s2, ast.FunctionDef)}
                if kmeth not in kmeths or any(not isinstance(s2, (ast.FunctionDef, ast.Expr, ast.Pass)) for s2 in K.body):
                    continue
                kinit = kmeths.get('__init__')
                if kinit is not None and (len(kinit.args.args) != 1 or kinit.args.vararg or kinit.args.kwarg or kinit.args.kwonlyargs):
                    continue
                others = [n_ for n_ in kmeths if n_ not in ('__init__', kmeth)]
                c_attrs = {n.attr for n in ast.walk(C) if isinstance(n, ast.Attribute) and isinstance(n.value, ast.Name) and n.value.id in ('self', 'cls')}
                k_attrs = {n.attr for n in ast.walk(K) if isinstance(n, ast.Attribute) and isinstance(n.value, ast.Name) and n.value.id == 'self'} - {kmeth}
                if (set(others) | k_attrs) & (have | c_attrs - {mname_}):
                    continue
                if any(a.args.args and a.args.args[0].arg != init.args.args[0].arg for a in kmeths.values()):
                    continue
                idx = init.body.index(st)
                kbody = [b for b in (kinit.body if kinit is not None else []) if not (isinstance(b, ast.Expr) and isinstance(b.value, ast.Constant)) and not isinstance(b, ast.Pass)]
                init.body[idx:idx + 1] = kbody or [ast.copy_location(ast.Pass(), st)]
                moved = kmeths[kmeth]
                moved.name = mname_
                for n in ast.walk(K):
                    if isinstance(n, ast.Attribute) and n.attr == kmeth and isinstance(n.value, ast.Name) and n.value.id == 'self':
                        n.attr = mname_
                C.body.append(moved)
                for n_ in others:
                    C.body.append(kmeths[n_])
                m.tree.body.remove(K)
                changed = True
                if log is not None:
                    log.append(f'`{C.name}.{mname_}` delegated to a `{kname}` object: method and state put back into `{C.name}`')
    if changed:
        for m in modules.values():
            ast.fix_missing_locations(m.tree)
    return changed


def undo_class_splits(modules, log=None):
    """A class of the reference layout that lost methods to a *new* class of the package - a base class it now derives from, or a second mixin that is listed
    wherever the class itself is listed as a base - was split: the members are put back (the class's own definitions win, as in the MRO; a same-named method
    of the new class that is reached through `super()` is kept under a private name and the `super()` call re-pointed), `__slots__` tuples are joined, and the
    new class disappears from the base lists.  A new class that anything else derives from or refers to is left alone."""
    _load_pinned()
    pinned_cls = {}
    for fq in _PINNED:
        mod, _, qual = fq.partition(':')
        parts = qual.split('.')
        if len(parts) == 2:
            pinned_cls.setdefault((mod, parts[0]), set()).add(parts[1].split('#')[0])
    # class-level names of the reference classes count as members as well
    for cfq, sig in _load_pinned_attrs()['classes'].items():
        mod, _, cn = cfq.partition(':')
        for an, uses in sig.items():
            if uses and uses[0] == 'class' and not (an.startswith('__') and an.endswith('__')):
                pinned_cls.setdefault((mod, cn), set()).add(an)
    all_classes = {}          # name -> [(modname, ClassDef)]
    for mname, m in modules.items():
        for st in m.tree.body:
            if isinstance(st, ast.ClassDef):
                all_classes.setdefault(st.name, []).append((mname, st))

    def members(c):
        out = {}
        for st in c.body:
            if isinstance(st, (ast.FunctionDef, ast.AsyncFunctionDef, ast.ClassDef)):
                out.setdefault(st.name, []).append(st)
            elif isinstance(st, ast.Assign):
                for t in st.targets:
                    if isinstance(t, ast.Name):
                        out.setdefault(t.id, []).append(st)
            elif isinstance(st, ast.AnnAssign) and isinstance(st.target, ast.Name):
                out.setdefault(st.target.id, []).append(st)
        return out

    def base_names(c):
        return [b.id if isinstance(b, ast.Name) else (b.attr if isinstance(b, ast.Attribute) else None) for b in c.bases]
    changed = False
    for (mod, cname), meths in sorted(pinned_cls.items()):
        if mod not in modules:
            continue
        K = next((st for st in modules[mod].tree.body if isinstance(st, ast.ClassDef) and st.name == cname), None)
        if K is None:
            continue
        for _round in range(3):
            have = members(K)
            missing = {m_ for m_ in meths if m_ not in have}
            if not missing:
                break
            cands = []
            for nm, lst in all_classes.items():
                if len(lst) != 1:
                    continue
                cm, C = lst[0]
                if C is K or (cm, nm) in pinned_cls or nm in ('object',):
                    continue
                if not (set(members(C)) & missing):
                    continue
                # who refers to C?
                derived = [(m2, D) for m2, mm in modules.items() for D in ast.walk(mm.tree) if isinstance(D, ast.ClassDef) and nm in base_names(D)]
                is_base = any(D is K for (_, D) in derived)
                if is_base and len(derived) == 1:
                    cands.append(('base', cm, C, derived))
                elif not is_base and derived and all(cname in base_names(D) for (_, D) in derived):
                    cands.append(('sibling', cm, C, derived))
            if len(cands) != 1:
                break
            kind, cm, C, derived = cands[0]
            # other uses of the name C (beyond base lists, the `_as_mixins` table and imports) block the merge
            other = 0
            for m2, mm in modules.items():
                for n in ast.walk(mm.tree):
                    if isinstance(n, ast.Name) and n.id == C.name and isinstance(n.ctx, ast.Load):
                        par_ok = any(n in D.bases for (_, D) in derived)
                        if not par_ok:
                            other += 1
            mix_lists = []
            for m2, mm in modules.items():
                for st in ast.walk(mm.tree):
                    if isinstance(st, ast.Assign) and isinstance(st.value, (ast.List, ast.Tuple)) and any(isinstance(e, ast.Name) and e.id == C.name for e in st.value.elts) \
                            and any(isinstance(e, ast.Name) and e.id == cname for e in st.value.elts):
                        mix_lists.append(st)
                        other -= 1
            if other > 0:
                break
            kmem = members(K)
            moved = []
            for st in list(C.body):
                if isinstance(st, ast.Expr) and isinstance(st.value, ast.Constant):
                    continue           # docstring
                if isinstance(st, ast.Pass):
                    continue
                names_ = [st.name] if isinstance(st, (ast.FunctionDef, ast.AsyncFunctionDef, ast.ClassDef)) else \
                    [t.id for t in (st.targets if isinstance(st, ast.Assign) else [st.target]) if isinstance(t, ast.Name)] if isinstance(st, (ast.Assign, ast.AnnAssign)) else []
                if not names_:
                    moved.append(st)
                    continue
                if names_ == ['__slots__'] and '__slots__' in kmem:
                    ks = kmem['__slots__'][0]
                    if isinstance(ks, ast.Assign) and isinstance(ks.value, (ast.Tuple, ast.List)) and isinstance(st, ast.Assign) and isinstance(st.value, (ast.Tuple, ast.List)):
                        ks.value = ast.Tuple(elts=list(st.value.elts) + list(ks.value.elts), ctx=ast.Load())
                    continue
                clash = [n_ for n_ in names_ if n_ in kmem]
                if clash and isinstance(st, ast.FunctionDef):
                    # K's own definition wins; C's stays reachable for K's super() calls
                    priv = f'_{C.name.lstrip("_")}__{st.name.strip("_")}'
                    uses_super = False
                    for kd in kmem[st.name]:
                        for call in ast.walk(kd):
                            if isinstance(call, ast.Call) and isinstance(call.func, ast.Attribute) and call.func.attr == st.name \
                                    and isinstance(call.func.value, ast.Call) and isinstance(call.func.value.func, ast.Name) and call.func.value.func.id == 'super':
                                call.func = ast.Attribute(value=ast.Name(id=(kd.args.args[0].arg if kd.args.args else 'self'), ctx=ast.Load()), attr=priv, ctx=ast.Load())
                                uses_super = True
                    if uses_super:
                        st.name = priv
                        moved.append(st)
                    continue
                if clash:
                    continue
                moved.append(st)
            if kind == 'base':
                K.body = moved + K.body
                nb = []
                for b in K.bases:
                    if (isinstance(b, ast.Name) and b.id == C.name):
                        nb += list(C.bases)
                    else:
                        nb.append(b)
                K.bases = nb
            else:
                K.body = K.body + moved
                for (_, D) in derived:
                    D.bases = [b for b in D.bases if not (isinstance(b, ast.Name) and b.id == C.name)]
            for st in mix_lists:
                st.value.elts = [e for e in st.value.elts if not (isinstance(e, ast.Name) and e.id == C.name)]
            K.body = [st for st in K.body if not isinstance(st, ast.Pass)] or [ast.Pass()]
            if cm != mod:
                for st in moved:
                    for n in ast.walk(st):
                        n._found_in = getattr(modules[cm], "relpath", None)
            modules[cm].tree.body.remove(C)
            del all_classes[C.name]
            changed = True
            if log is not None:
                log.append(f'class `{C.name}` ({kind} of `{cname}`) holds members of `{cname}` of the reference layout: merged back')
    if changed:
        for m in modules.values():
            ast.fix_missing_locations(m.tree)
    return changed


def undo_moves(modules, log=None):
    """A top-level function or class of the reference layout that is gone from its module while exactly one other module of the package
    (possibly a new one) defines a top-level function / class of that name - which is not an entity of the reference layout there - was
    moved: the definition is put back into its reference module in the in-memory tree, together with imports for what it uses from the
    module it was found in; imports of the name are re-pointed.  Anything ambiguous is left alone (the anchor lookup then fails as an
    analysis error, never as a verdict)."""
    _load_pinned()
    ref_top = {}
    for fq in _PINNED:
        mod, _, qual = fq.partition(':')
        ref_top.setdefault(mod, set()).add(qual.split('.')[0])
    for cfq in _load_pinned_attrs()['classes']:          # classes without methods of their own (configuration holders)
        mod, _, cname = cfq.partition(':')
        ref_top.setdefault(mod, set()).add(cname)

    def absolute(m, level, module):
        if level == 0:
            return module
        base = m.name.split('.')
        if not getattr(m, 'is_pkg', False):
            base = base[:-1]
        if level > 1:
            base = base[: len(base) - (level - 1)]
        return '.'.join(base + ([module] if module else []))

    def top_bound(tree):
        out = set()
        for st in tree.body:
            if isinstance(st, (ast.FunctionDef, ast.AsyncFunctionDef, ast.ClassDef)):
                out.add(st.name)
            elif isinstance(st, ast.Import):
                out |= {a.asname or a.name.split('.')[0] for a in st.names}
            elif isinstance(st, ast.ImportFrom):
                out |= {a.asname or a.name for a in st.names}
            elif isinstance(st, (ast.Assign, ast.AnnAssign, ast.AugAssign)):
                for t in (st.targets if isinstance(st, ast.Assign) else [st.target]):
                    out |= {n.id for n in ast.walk(t) if isinstance(n, ast.Name)}
        return out
    any_move = False
    for modA in sorted(ref_top):
        if modA not in modules:
            continue
        A = modules[modA]
        present = {st.name for st in A.tree.body if isinstance(st, (ast.FunctionDef, ast.ClassDef))}
        for name in sorted(ref_top[modA] - present):
            cands = [(mB, st) for mB, m in modules.items() if mB != modA for st in m.tree.body
                     if isinstance(st, (ast.FunctionDef, ast.ClassDef)) and st.name == name and name not in ref_top.get(mB, ())]
            if len(cands) != 1:
                continue
            mB, node = cands[0]
            B = modules[mB]
            B.tree.body.remove(node)
            # what the moved definition uses from the module it was found in
            have = top_bound(A.tree) | {name}
            used = {n.id for n in ast.walk(node) if isinstance(n, ast.Name) and isinstance(n.ctx, ast.Load)}
            extra = []
            for st in B.tree.body:
                if isinstance(st, ast.Import):
                    keep = [a for a in st.names if (a.asname or a.name.split('.')[0]) in used - have]
                    if keep:
                        extra.append(ast.Import(names=keep))
                        have |= {a.asname or a.name.split('.')[0] for a in keep}
                elif isinstance(st, ast.ImportFrom):
                    keep = [a for a in st.names if (a.asname or a.name) in used - have]
                    if keep:
                        extra.append(ast.ImportFrom(module=absolute(B, st.level, st.module), names=keep, level=0))
                        have |= {a.asname or a.name for a in keep}
            own_B = set()
            for st in B.tree.body:
                if isinstance(st, (ast.FunctionDef, ast.ClassDef)):
                    own_B.add(st.name)
                elif isinstance(st, (ast.Assign, ast.AnnAssign)):
                    for t in (st.targets if isinstance(st, ast.Assign) else [st.target]):
                        own_B |= {n.id for n in ast.walk(t) if isinstance(n, ast.Name)}
            need_B = sorted((used - have) & own_B)
            if need_B:
                extra.append(ast.ImportFrom(module=mB, names=[ast.alias(name=n_, asname=None) for n_ in need_B], level=0))
            # the reference module no longer imports the name; the other module imports it if it still uses it
            for st in list(A.tree.body):
                if isinstance(st, ast.ImportFrom):
                    st.names = [a for a in st.names if not ((a.asname or a.name) == name)]
                    if not st.names:
                        A.tree.body.remove(st)
            pos = 0
            for i_, st in enumerate(A.tree.body):
                if isinstance(st, (ast.Import, ast.ImportFrom)) or (i_ == 0 and isinstance(st, ast.Expr) and isinstance(st.value, ast.Constant)):
                    pos = i_ + 1
            for x in extra:
                ast.fix_missing_locations(ast.copy_location(x, node))
            A.tree.body[pos:pos] = extra
            node._found_in = getattr(B, 'relpath', None)
            for sub in ast.walk(node):
                if isinstance(sub, (ast.FunctionDef, ast.AsyncFunctionDef, ast.ClassDef, ast.Lambda)):
                    sub._found_in = node._found_in
            A.tree.body.append(node)
            if any(isinstance(n, ast.Name) and n.id == name for n in ast.walk(B.tree)):
                imp = ast.ImportFrom(module=modA, names=[ast.alias(name=name, asname=None)], level=0)
                B.tree.body.insert(0, ast.fix_missing_locations(ast.copy_location(imp, node)))
            # every other import of the name from the module it was found in now points at the reference module
            for mC, C in modules.items():
                if mC in (modA, mB):
                    continue
                for st in list(C.tree.body):
                    if isinstance(st, ast.ImportFrom) and absolute(C, st.level, st.module) == mB and any(a.name == name for a in st.names):
                        moved_al = [a for a in st.names if a.name == name]
                        st.names = [a for a in st.names if a.name != name]
                        imp = ast.ImportFrom(module=modA, names=moved_al, level=0)
                        C.tree.body.insert(C.tree.body.index(st), ast.fix_missing_locations(ast.copy_location(imp, st)))
                        if not st.names:
                            C.tree.body.remove(st)
            any_move = True
            if log is not None:
                log.append(f'{mB}:{name} taken for {modA}:{name} of the reference layout (moved between modules)')
    return any_move


def undo_method_aliases(modules, log=None):
    """`class C: m = staticmethod(f)` (or classmethod / a plain alias) where `m` is a method of the reference layout and `f` a new module-level function of the
    same module: the function's definition is read as the method again (the alias is replaced by the def, under the method's name and with the decorator)."""
    _load_pinned()
    done = False
    for mname, m in modules.items():
        funcs = {st.name: st for st in m.tree.body if isinstance(st, ast.FunctionDef)}
        for c in [st for st in m.tree.body if isinstance(st, ast.ClassDef)]:
            have = {st.name for st in c.body if isinstance(st, (ast.FunctionDef, ast.AsyncFunctionDef))}
            for i, st in enumerate(list(c.body)):
                if not (isinstance(st, ast.Assign) and len(st.targets) == 1 and isinstance(st.targets[0], ast.Name)):
                    continue
                meth = st.targets[0].id
                if f'{mname}:{c.name}.{meth}' not in _PINNED or meth in have:
                    continue
                v, deco = st.value, None
                if isinstance(v, ast.Call) and isinstance(v.func, ast.Name) and v.func.id in ('staticmethod', 'classmethod') and len(v.args) == 1 and not v.keywords:
                    deco, v = v.func.id, v.args[0]
                if not (isinstance(v, ast.Name) and v.id in funcs and f'{mname}:{v.id}' not in _PINNED):
                    continue
                fdef = copy.deepcopy(funcs[v.id])
                fdef.name = meth
                fdef.decorator_list = ([ast.copy_location(ast.Name(id=deco, ctx=ast.Load()), st)] if deco else []) + fdef.decorator_list
                c.body[c.body.index(st)] = ast.fix_missing_locations(fdef)
                # the module-level function goes when nothing else mentions it
                own_ = {id(x) for x in ast.walk(funcs[v.id])}
                used = any(isinstance(n, ast.Name) and n.id == v.id and id(n) not in own_ for m2 in modules.values() for n in ast.walk(m2.tree))
                if not used and funcs[v.id] in m.tree.body:
                    m.tree.body.remove(funcs[v.id])
                done = True
                if log is not None:
                    log.append(f'{mname}:{c.name}.{meth} = {deco or ""}({v.id}): the function is read as the method of the reference layout')
    return done


_PINNED_ATTRS = None


def _load_pinned_attrs():
    global _PINNED_ATTRS
    if _PINNED_ATTRS is None:
        import json
        p = os.path.join(os.path.dirname(os.path.abspath(__file__)), 'pinned_attrs.json')
        try:
            with open(p) as f:
                _PINNED_ATTRS = json.load(f)
        except OSError:
            _PINNED_ATTRS = {'classes': {}, 'modules': {}}
    return _PINNED_ATTRS


def undo_attr_renames(modules, log=None, local_only=False):
    """A private attribute of a class of the reference layout (a slot, an instance attribute, a class-level name) that is gone while a new one with exactly the
    same usage signature - the same stores / loads in the same methods, slot or not - appeared in that class was renamed: the old name is restored in the class
    (every `<x>.new` inside the class body, the `__slots__` entry, string constants equal to the new name in the class's module that name the slot, e.g.
    `store_name='..'`) and, when the new name stands for one old name only, everywhere else in the package.  The same for module-level variables.  Anything
    that does not match one-to-one is left alone."""
    from .attrsig import class_signatures, module_signatures
    ref = _load_pinned_attrs()
    done = False
    new_to_old = {}
    plans = []
    for mname, m in modules.items():
        cur = class_signatures(m.tree)
        for cname, csig in cur.items():
            rsig = ref['classes'].get(f'{mname}:{cname}')
            if not rsig:
                continue
            missing = [a for a in rsig if a not in csig]
            new = [a for a in csig if a not in rsig]
            if not missing or not new:
                continue
            for old in missing:
                cands = [n for n in new if csig[n] == rsig[old]]
                if not cands and len(missing) == 1 and len(new) == 1 and set(csig[new[0]]) == set(rsig[old]):
                    # the only attribute that went and the only one that came, used in the same methods in the same ways (the counts may differ: a test
                    # written twice, a store duplicated by a restructuring)
                    cands = [new[0]]
                # the signature of the other attributes may itself contain renamed method names: equality is required as it is
                others = [o for o in missing if rsig[o] == rsig[old]]
                if len(cands) == 1 and len(others) == 1:
                    plans.append((mname, cname, cands[0], old))
                    new_to_old.setdefault(cands[0], set()).add(old)
    for (mname, cname, newn, old) in plans:
        m = modules[mname]
        cnode = [c for c in m.tree.body if isinstance(c, ast.ClassDef) and c.name == cname][0]
        for n in ast.walk(cnode):
            if isinstance(n, ast.Attribute) and n.attr == newn:
                n.attr = old
            elif isinstance(n, ast.Constant) and n.value == newn:
                n.value = old
            elif isinstance(n, ast.Name) and n.id == newn and isinstance(getattr(n, 'ctx', None), (ast.Store, ast.Load)) and any(
                    isinstance(st, (ast.Assign, ast.AnnAssign)) and n in ast.walk(st) for st in cnode.body):
                n.id = old
        # decorators / helper calls of this module that name the slot as a string (store_name='_ts_props')
        for n in ast.walk(m.tree):
            if isinstance(n, ast.keyword) and isinstance(n.value, ast.Constant) and n.value.value == newn:
                n.value.value = old
        unique = len(new_to_old[newn]) == 1
        # (package-wide only where no *other* class of the reference layout has an attribute of the new name: that one is its own)
        owned_elsewhere = any(newn in sig_ for cfq_, sig_ in ref['classes'].items() if cfq_ != f'{mname}:{cname}')
        if unique and not local_only and not owned_elsewhere:
            for m2 in modules.values():
                for n in ast.walk(m2.tree):
                    if isinstance(n, ast.Attribute) and n.attr == newn:
                        n.attr = old
                    elif isinstance(n, ast.keyword) and isinstance(n.value, ast.Constant) and n.value.value == newn:
                        n.value.value = old
        done = True
        if log is not None:
            log.append(f'{mname}:{cname}.{newn} taken for the renamed attribute `{old}` of the reference layout')
    # module-level variables
    for mname, m in modules.items():
        rsig = ref['modules'].get(mname)
        if not rsig:
            continue
        csig = module_signatures(m.tree)
        missing = [a for a in rsig if a not in csig]
        new = [a for a in csig if a not in rsig]
        for old in missing:
            cands = [n for n in new if csig[n] == rsig[old] and csig[n]]
            others = [o for o in missing if rsig[o] == rsig[old]]
            if len(cands) == 1 and len(others) == 1:
                newn = cands[0]
                for n in ast.walk(m.tree):
                    if isinstance(n, ast.Name) and n.id == newn:
                        n.id = old
                for m2 in modules.values():
                    for n in ast.walk(m2.tree):
                        if isinstance(n, ast.alias) and n.name == newn:
                            n.name = old
                done = True
                if log is not None:
                    log.append(f'{mname}:{newn} taken for the renamed module variable `{old}` of the reference layout')
    return done


LOOPS = (ast.For, ast.While, ast.AsyncFor)
DEFS = (ast.FunctionDef, ast.AsyncFunctionDef, ast.ClassDef)


def _walk_no_defs(node):
    if isinstance(node, DEFS + (ast.Lambda,)):
        yield node
        return
    stack = [node]
    first = True
    while stack:
        n = stack.pop()
        if not first and isinstance(n, DEFS + (ast.Lambda,)):
            continue
        first = False
        yield n
        stack.extend(ast.iter_child_nodes(n))


def _contains_return(st):
    if isinstance(st, DEFS):
        return False
    return any(isinstance(n, ast.Return) for n in _walk_no_defs(st))


def _always_leaves(body):
    if not body:
        return False
    last = body[-1]
    if isinstance(last, (ast.Return, ast.Raise)):
        return True
    if isinstance(last, ast.If):
        return bool(last.orelse) and _always_leaves(last.body) and _always_leaves(last.orelse)
    return False


def _tailify(stmts):
    """nest what follows an `if` that returns into the branches that fall through; None when impossible"""
    out = []
    for i, st in enumerate(stmts):
        rest = stmts[i + 1:]
        if rest and _contains_return(st):
            if not isinstance(st, ast.If):
                return None
            new = copy.copy(st)
            b = list(st.body) if _always_leaves(st.body) else list(st.body) + copy.deepcopy(rest)
            o = list(st.orelse) if (st.orelse and _always_leaves(st.orelse)) else list(st.orelse) + copy.deepcopy(rest)
            new.body = _tailify(b)
            new.orelse = _tailify(o)
            if new.body is None or new.orelse is None:
                return None
            out.append(new)
            return out
        if isinstance(st, ast.If) and _contains_return(st):
            new = copy.copy(st)
            new.body = _tailify(list(st.body))
            new.orelse = _tailify(list(st.orelse)) if st.orelse else []
            if new.body is None or new.orelse is None:
                return None
            out.append(new)
            continue
        out.append(st)
    return out


def _returns_all_tail(body, tail=True):
    """every Return is the last statement of a tail block"""
    for i, st in enumerate(body):
        is_last = tail and i == len(body) - 1
        if isinstance(st, ast.Return):
            if not is_last:
                return False
        elif isinstance(st, ast.If):
            if not _returns_all_tail(st.body, is_last) or not _returns_all_tail(st.orelse, is_last):
                return False
        elif isinstance(st, ast.Try):
            if st.finalbody or st.orelse:
                if _contains_return(st):
                    return False
            else:
                if not _returns_all_tail(st.body, is_last):
                    return False
                for h in st.handlers:
                    if not _returns_all_tail(h.body, is_last):
                        return False
        elif isinstance(st, (ast.With,)):
            if not _returns_all_tail(st.body, is_last):
                return False
        elif _contains_return(st):
            return False
    return True


def _close_paths(body):
    """make the implicit `return None` at the end of fall-through tail paths explicit"""
    if not body:
        return [ast.Return(value=ast.Constant(value=None))]
    last = body[-1]
    if isinstance(last, (ast.Return, ast.Raise)):
        return body
    if isinstance(last, ast.If) and _contains_return(last):
        last.body = _close_paths(last.body)
        last.orelse = _close_paths(last.orelse)
        return body
    if isinstance(last, ast.Try) and _contains_return(last):
        last.body = _close_paths(last.body)
        for h in last.handlers:
            h.body = _close_paths(h.body)
        return body
    if isinstance(last, ast.With) and _contains_return(last):
        last.body = _close_paths(last.body)
        return body
    return body + [ast.Return(value=ast.Constant(value=None))]


def _final_loop_returns_to_breaks(body):
    """a bare `return` at the own level (through ifs) of a loop that ends the function is a `break` (no else-branch on the loop)"""
    tail = list(body)
    while tail and isinstance(tail[-1], ast.Return) and (tail[-1].value is None or (isinstance(tail[-1].value, ast.Constant) and tail[-1].value.value is None)):
        tail.pop()
    if not tail or not isinstance(tail[-1], (ast.For, ast.While)) or tail[-1].orelse:
        return body

    def conv(stmts):
        out = []
        for st in stmts:
            if isinstance(st, ast.Return) and (st.value is None or (isinstance(st.value, ast.Constant) and st.value.value is None)):
                out.append(ast.copy_location(ast.Break(), st))
            elif isinstance(st, ast.If):
                st.body = conv(st.body)
                st.orelse = conv(st.orelse)
                out.append(st)
            else:
                out.append(st)
        return out
    tail[-1].body = conv(tail[-1].body)
    return tail


def _fold_param_tests(fn, states):
    """copy of the function with the tests on the parameters in `states` (name -> 'none' | 'notnone') decided and the dead branches
    removed; None when nothing was decided"""
    fn = copy.deepcopy(fn)
    hit = [False]

    def verdict(t):
        if isinstance(t, ast.UnaryOp) and isinstance(t.op, ast.Not):
            v = verdict(t.operand)
            return None if v is None else (not v)
        if isinstance(t, ast.Compare) and len(t.ops) == 1 and isinstance(t.left, ast.Name) and t.left.id in states \
                and isinstance(t.comparators[0], ast.Constant) and t.comparators[0].value is None and isinstance(t.ops[0], (ast.Is, ast.IsNot)):
            isnone = states[t.left.id] == 'none'
            return isnone if isinstance(t.ops[0], ast.Is) else not isnone
        if isinstance(t, ast.Name) and states.get(t.id) in ('none', 'false'):
            return False
        if isinstance(t, ast.Name) and states.get(t.id) == 'true':
            return True
        if isinstance(t, ast.BoolOp):
            vs = [verdict(v) for v in t.values]
            if isinstance(t.op, ast.And):
                if any(v is False for v in vs):
                    return False
                if all(v is True for v in vs):
                    return True
            else:
                if any(v is True for v in vs):
                    return True
                if all(v is False for v in vs):
                    return False
        return None

    def reduce_test(t):
        """a and/or test with the decided operands removed (the undecided rest decides)"""
        if isinstance(t, ast.BoolOp):
            drop = True if isinstance(t.op, ast.And) else False
            keep = [v for v in t.values if verdict(v) is not drop]
            if len(keep) < len(t.values) and keep:
                hit[0] = True
                return keep[0] if len(keep) == 1 else ast.copy_location(ast.BoolOp(op=t.op, values=keep), t)
        return t

    def fold(stmts):
        out = []
        for st in stmts:
            if isinstance(st, (ast.If, ast.While)) and verdict(st.test) is None:
                st.test = reduce_test(st.test)
            for field in ('body', 'orelse', 'finalbody'):
                sub = getattr(st, field, None)
                if isinstance(sub, list) and sub and isinstance(sub[0], ast.stmt) and not isinstance(st, DEFS):
                    setattr(st, field, fold(sub))
            if isinstance(st, ast.Try):
                for h in st.handlers:
                    h.body = fold(h.body) or [ast.copy_location(ast.Pass(), st)]
            if isinstance(st, ast.If):
                v = verdict(st.test)
                if v is not None:
                    hit[0] = True
                    out.extend(st.body if v else st.orelse)
                    if out and isinstance(out[-1], (ast.Return, ast.Raise, ast.Break, ast.Continue)):
                        break          # what follows in this block is dead
                    continue
                if not st.body:
                    st.body = [ast.copy_location(ast.Pass(), st)]
            elif isinstance(st, (ast.For, ast.While, ast.With)) and not st.body:
                st.body = [ast.copy_location(ast.Pass(), st)]
            out.append(st)
        return out
    fn.body = fold(fn.body) or [ast.Pass()]
    return fn if hit[0] else None


def _search_loop_form(body, rname='_found'):
    """PRE; <loop that returns from inside>; POST   ->   PRE; <loop: `return X` -> `rname = X; break`> else: POST'; return rname

    (POST' is POST with every path closed by `rname = <returned value>`).  Only for a loop without else-branch and without
    breaks of its own, whose returns sit under plain ifs; None when the body does not have this shape."""
    hot = [i for i, st in enumerate(body) if _contains_return(st)]
    loops = [i for i in hot if isinstance(body[i], (ast.For, ast.While))]
    if len(loops) != 1 or hot[0] != loops[0]:
        return None
    i = loops[0]
    loop = body[i]
    if loop.orelse:
        return None

    def level(stmts):
        # statements of the loop's own level (through ifs)
        for st in stmts:
            yield st
            if isinstance(st, ast.If):
                yield from level(st.body)
                yield from level(st.orelse)
    own = list(level(loop.body))
    if any(isinstance(st, ast.Break) for st in own):
        return None
    for st in own:
        if not isinstance(st, (ast.If, ast.Return)) and _contains_return(st):
            return None
    post = _tailify(copy.deepcopy(body[i + 1:]))
    if post is None or not _returns_all_tail(post):
        return None
    post = _close_paths(post)

    def assign(value, at):
        return ast.copy_location(ast.Assign(targets=[ast.Name(id=rname, ctx=ast.Store())], value=value or ast.Constant(value=None)), at)

    def in_loop(stmts):
        out = []
        for st in stmts:
            if isinstance(st, ast.Return):
                out += [assign(st.value, st), ast.copy_location(ast.Break(), st)]
            elif isinstance(st, ast.If):
                st = copy.copy(st)
                st.body = in_loop(st.body)
                st.orelse = in_loop(st.orelse)
                out.append(st)
            else:
                out.append(st)
        return out

    def in_post(stmts):
        out = []
        for st in stmts:
            if isinstance(st, ast.Return):
                out.append(assign(st.value, st))
            elif isinstance(st, (ast.If, ast.With, ast.Try)) and _contains_return(st):
                st = copy.copy(st)
                st.body = in_post(st.body)
                if isinstance(st, ast.If):
                    st.orelse = in_post(st.orelse)
                if isinstance(st, ast.Try):
                    hs = []
                    for h in st.handlers:
                        h = copy.copy(h)
                        h.body = in_post(h.body)
                        hs.append(h)
                    st.handlers = hs
                out.append(st)
            else:
                out.append(st)
        return out
    new_loop = copy.copy(loop)
    new_loop.body = in_loop(copy.deepcopy(loop.body))
    new_loop.orelse = in_post(post)
    ret = ast.copy_location(ast.Return(value=ast.Name(id=rname, ctx=ast.Load())), body[-1])
    out = list(body[:i]) + [new_loop, ret]
    for st in out:
        ast.fix_missing_locations(st)
    return out


class _Helper:
    def __init__(self, modname, qual, node, cls_name):
        self.modname = modname
        self.qual = qual
        self.node = node
        self.cls_name = cls_name
        self.kind = 'function'
        for d in node.decorator_list:
            if isinstance(d, ast.Name) and d.id in ('staticmethod', 'classmethod'):
                self.kind = d.id
            else:
                self.kind = None
        if cls_name and self.kind == 'function':
            self.kind = 'method'
        self.is_gen = any(isinstance(n, (ast.Yield, ast.YieldFrom)) for st in node.body for n in _walk_no_defs(st))
        self.body = None
        self.raw_body = None
        self.tail_ok = False
        self.ok = self._prepare()

    def _prepare(self):
        fn = self.node
        if self.kind is None or isinstance(fn, ast.AsyncFunctionDef):
            return False
        a = fn.args
        if a.vararg or a.kwarg or a.posonlyargs:
            return False
        self.nested = [n for n in ast.walk(fn) if n is not fn and isinstance(n, DEFS)]
        # parameters of the helper's own nested functions that shadow a name of the helper are renamed inside the nested function (alpha-conversion)
        outer_names = {x.arg for x in a.args + a.kwonlyargs}
        for st_ in fn.body:
            if not isinstance(st_, ast.FunctionDef):
                for n in ast.walk(st_):
                    if isinstance(n, ast.Name) and isinstance(n.ctx, (ast.Store, ast.Del)):
                        outer_names.add(n.id)
        for d in [st_ for st_ in fn.body if isinstance(st_, ast.FunctionDef)]:
            clash = {x.arg for x in ast.walk(d.args) if isinstance(x, ast.arg)} & outer_names
            if clash and not any(isinstance(n, (ast.Global, ast.Nonlocal)) for n in ast.walk(d)):
                for n in ast.walk(d):
                    if isinstance(n, ast.Name) and n.id in clash:
                        n.id = n.id + '__n'
                    elif isinstance(n, ast.arg) and n.arg in clash:
                        n.arg = n.arg + '__n'
        for n in ast.walk(fn):
            if n is not fn and isinstance(n, DEFS) and not (isinstance(n, ast.FunctionDef) and n in fn.body):
                return False        # closures are accepted only as plain `def` statements of the helper's own body (factories)
            if isinstance(n, (ast.Global, ast.Nonlocal)):
                return False
            if isinstance(n, ast.Call):
                f = n.func
                if (isinstance(f, ast.Name) and f.id == fn.name) or \
                        (isinstance(f, ast.Attribute) and f.attr == fn.name and isinstance(f.value, ast.Name) and (f.value.id in ('self', 'cls') or f.value.id[:1].isupper())):
                    return False        # (self-)recursive
        body = list(fn.body)
        if body and isinstance(body[0], ast.Expr) and isinstance(body[0].value, ast.Constant) and isinstance(body[0].value.value, str):
            body = body[1:]
        if not body:
            body = [ast.Pass()]
        # in `return helper(..)` / `raise helper(..)` position the returns of the helper may sit anywhere (loops included)
        raw = copy.deepcopy(body)
        if not isinstance(raw[-1], (ast.Return, ast.Raise)):
            raw = raw + [ast.Return(value=ast.Constant(value=None))]
        self.raw_body = raw
        self.tail_ok = True
        self.extra_stored = set()
        body = _final_loop_returns_to_breaks(copy.deepcopy(body))
        tailed = _tailify(copy.deepcopy(body))
        if (tailed is None or not _returns_all_tail(tailed)) and not self.is_gen:
            # a search loop that returns its hit: brought to single-exit form
            rname = '_found'
            alt = _search_loop_form(copy.deepcopy(body), rname)
            if alt is not None:
                tailed = _tailify(alt)
                self.extra_stored.add(rname)
        body = tailed
        if body is None or not _returns_all_tail(body):
            self.tail_ok = False
            self.body = None
        else:
            self.body = _close_paths(body)
        self.params = [x.arg for x in a.args] + [x.arg for x in a.kwonlyargs]
        self.defaults = {}
        pos = [x.arg for x in a.args]
        for name, d in zip(pos[len(pos) - len(a.defaults):], a.defaults):
            self.defaults[name] = d
        for x, d in zip(a.kwonlyargs, a.kw_defaults):
            if d is not None:
                self.defaults[x.arg] = d
        self.npos = len(pos)
        stored = set()
        for n in ast.walk(fn):
            if isinstance(n, ast.Name) and isinstance(n.ctx, (ast.Store, ast.Del)):
                stored.add(n.id)
            elif isinstance(n, ast.ExceptHandler) and n.name:
                stored.add(n.name)
            elif isinstance(n, ast.arg) and n.arg not in self.params:
                if not any(n in ast.walk(d.args) for d in self.nested):
                    return False          # lambda parameters: keep it simple
        inner_params = {a_.arg for d in self.nested for a_ in ast.walk(d.args) if isinstance(a_, ast.arg)}
        for d in self.nested:
            stored.add(d.name)
        if inner_params & (stored | set(self.params)):
            return False
        self.stored = stored | self.extra_stored
        return True


def _simple_arg(e):
    if isinstance(e, ast.Constant):
        return True
    while isinstance(e, ast.Attribute):
        e = e.value
    return isinstance(e, ast.Name)


class _Subst(ast.NodeTransformer):
    def __init__(self, rename, subst):
        self.rename = rename
        self.subst = subst

    def visit_Name(self, n):
        if n.id in self.subst and isinstance(n.ctx, ast.Load):
            return ast.copy_location(copy.deepcopy(self.subst[n.id]), n)
        if n.id in self.rename:
            return ast.copy_location(ast.Name(id=self.rename[n.id], ctx=n.ctx), n)
        return n

    def visit_ExceptHandler(self, n):
        self.generic_visit(n)
        if n.name and n.name in self.rename:
            n.name = self.rename[n.name]
        return n

    def visit_FunctionDef(self, n):
        self.generic_visit(n)
        if n.name in self.rename:
            n.name = self.rename[n.name]
        return n


class Inliner:
    def __init__(self, modules, pinned=None, log=None):
        self.modules = modules          # name -> object with .tree
        self.pinned = pinned_functions() if pinned is None else pinned
        self.counter = 0
        self.log = log if log is not None else []
        self.inlined_sites = {}         # helper key -> count
        self.helpers = {}               # (modname, cls or None, name) -> _Helper
        self.records = {}               # id(function node) -> {local name: (modname, class name)}: locals holding an instance of a new record class
        self._cur_vars = {}
        self._cur_fn = None
        self._special = {}
        self._made_prefixes = set()
        self.ext_helpers = {}           # reference functions that gained optional parameters
        self._rec_funcs = {}            # id(function node) -> function node

    # ---------------------------------------------------------------- discovery
    def discover(self):
        for mname, m in self.modules.items():
            for st in m.tree.body:
                if isinstance(st, ast.FunctionDef):
                    fq = f'{mname}:{st.name}'
                    # a nested function of the reference layout moved to module level keeps its identity (not a new helper)
                    relocated = any(p_.startswith(mname + ':') and p_.endswith('.' + st.name) for p_ in self.pinned)
                    if fq not in self.pinned and not relocated:
                        self.helpers[(mname, None, st.name)] = _Helper(mname, st.name, st, None)
                    elif fq in self.pinned:
                        self._note_extended(mname, None, st, fq)
                elif isinstance(st, ast.ClassDef):
                    for s2 in st.body:
                        if isinstance(s2, ast.FunctionDef):
                            fq = f'{mname}:{st.name}.{s2.name}'
                            if fq not in self.pinned and not (s2.name.startswith('__') and s2.name.endswith('__')):
                                # a new method of a class that is itself new is not an extracted helper
                                self.helpers[(mname, st.name, s2.name)] = _Helper(mname, f'{st.name}.{s2.name}', s2, st.name)
                            elif fq in self.pinned:
                                self._note_extended(mname, st.name, s2, fq)
        return {k: h for k, h in self.helpers.items() if h.ok}

    def _split_short_circuits(self):
        """a helper call in the short-circuited part of a statement cannot be expanded in place: `x = A or helper(..)` is `x = A; if not x: x = helper(..)`, and
        `if a and helper(..): S` (no else) is `if a: if helper(..): S`"""
        changed = False
        for mname, m in self.modules.items():
            scopes = [(None, st) for st in m.tree.body if isinstance(st, ast.FunctionDef)] + \
                     [(c.name, s2) for c in m.tree.body if isinstance(c, ast.ClassDef) for s2 in c.body if isinstance(s2, ast.FunctionDef)]
            for cls_name, fn in scopes:
                def is_helper_call(e):
                    if not isinstance(e, ast.Call):
                        return False
                    h, _r = self._resolve0(mname, cls_name, e)
                    return h is not None and h.ok

                def visit(stmts):
                    nonlocal changed
                    out = []
                    for st in stmts:
                        if isinstance(st, DEFS):
                            out.append(st)
                            continue
                        for fld in ('body', 'orelse', 'finalbody'):
                            sub = getattr(st, fld, None)
                            if isinstance(sub, list) and sub and isinstance(sub[0], ast.stmt):
                                setattr(st, fld, visit(sub))
                        if isinstance(st, ast.Try):
                            for hd in st.handlers:
                                hd.body = visit(hd.body)
                        if isinstance(st, ast.Assign) and len(st.targets) == 1 and isinstance(st.targets[0], ast.Name) and isinstance(st.value, ast.BoolOp) \
                                and isinstance(st.value.op, ast.Or) and len(st.value.values) == 2 and is_helper_call(st.value.values[1]) \
                                and not any(isinstance(x, ast.Call) for x in ast.walk(st.value.values[0])):
                            t = st.targets[0].id
                            first = ast.copy_location(ast.Assign(targets=[ast.Name(id=t, ctx=ast.Store())], value=st.value.values[0]), st)
                            second = ast.copy_location(ast.Assign(targets=[ast.Name(id=t, ctx=ast.Store())], value=st.value.values[1]), st)
                            cond = ast.copy_location(ast.If(test=ast.UnaryOp(op=ast.Not(), operand=ast.Name(id=t, ctx=ast.Load())), body=[second], orelse=[]), st)
                            for n_ in (first, cond):
                                ast.fix_missing_locations(n_)
                            out.extend([first, cond])
                            changed = True
                            continue
                        if isinstance(st, ast.If) and not st.orelse and isinstance(st.test, ast.BoolOp) and isinstance(st.test.op, ast.And) and len(st.test.values) >= 2 \
                                and is_helper_call(st.test.values[-1]) and not any(is_helper_call(x) for v in st.test.values[:-1] for x in ast.walk(v)):
                            rest = st.test.values[:-1]
                            outer_t = rest[0] if len(rest) == 1 else ast.BoolOp(op=ast.And(), values=rest)
                            inner = ast.copy_location(ast.If(test=st.test.values[-1], body=st.body, orelse=[]), st)
                            outer = ast.copy_location(ast.If(test=outer_t, body=[inner], orelse=[]), st)
                            ast.fix_missing_locations(outer)
                            out.append(outer)
                            changed = True
                            continue
                        out.append(st)
                    return out
                fn.body = visit(fn.body)
        return changed

    def _absorb_continuations(self):
        """`T = helper(..); <straight-line statements>; return E` at the end of a function of the reference layout, where the helper leaves from inside loops (so
        its body cannot be spliced in front of the rest): the rest is the continuation of every return of the helper - a copy of the helper is made in which each
        `return V` reads `T = V; <the statements>; return E`, and the function ends `return <that copy>(..)`."""
        changed = False
        n = 0
        for mname, m in self.modules.items():
            scopes = [(None, st) for st in m.tree.body if isinstance(st, ast.FunctionDef)] + \
                     [(c.name, s2) for c in m.tree.body if isinstance(c, ast.ClassDef) for s2 in c.body if isinstance(s2, ast.FunctionDef)]
            for cls_name, fn in scopes:
                fq = f'{mname}:{cls_name}.{fn.name}' if cls_name else f'{mname}:{fn.name}'
                if fq not in self.pinned:
                    continue
                body = fn.body
                for i, st in enumerate(body):
                    if not (isinstance(st, ast.Assign) and len(st.targets) == 1 and isinstance(st.value, ast.Call)):
                        continue
                    h, recv = self._resolve0(mname, cls_name, st.value)
                    if h is None or not h.ok or h.tail_ok or h.is_gen:
                        continue
                    rest = body[i + 1:]
                    if not rest or not isinstance(rest[-1], ast.Return) or not all(isinstance(r, (ast.Assign, ast.AugAssign, ast.Expr, ast.Return)) for r in rest) \
                            or any(isinstance(r, ast.Return) for r in rest[:-1]):
                        continue
                    tgt = st.targets[0]
                    telts = tgt.elts if isinstance(tgt, ast.Tuple) else [tgt]
                    if not all(isinstance(e, ast.Name) or (isinstance(e, ast.Attribute) and isinstance(e.value, ast.Name) and e.value.id in ('self', 'cls')) for e in telts):
                        continue
                    tnames = {e.id for e in telts if isinstance(e, ast.Name)}
                    loaded = {x.id for r in rest for x in ast.walk(r) if isinstance(x, ast.Name) and isinstance(x.ctx, ast.Load)}
                    selfname = h.params[0] if h.kind in ('method', 'classmethod') else None
                    caller_self = fn.args.args[0].arg if cls_name and fn.args.args else None
                    if selfname != caller_self and (caller_self in loaded or any(isinstance(e, ast.Attribute) for e in telts)):
                        continue
                    capture = (loaded - tnames - {caller_self}) & (set(h.stored) | set(h.params))
                    if capture:
                        continue
                    n += 1
                    new_name = f'{h.node.name}__k{n}'
                    node2 = copy.deepcopy(h.node)
                    node2.name = new_name

                    def emit_cont(val, at):
                        """`T = val; <rest>` - element by element when both sides are displays of equal length and no element reads what an earlier one wrote"""
                        outs = []
                        if isinstance(tgt, ast.Tuple) and isinstance(val, ast.Tuple) and len(val.elts) == len(tgt.elts):
                            texts = [ast.unparse(e) for e in tgt.elts]
                            safe = True
                            for k in range(len(texts)):
                                reads = {ast.unparse(x) for x in ast.walk(val.elts[k]) if isinstance(x, (ast.Name, ast.Attribute))}
                                if any(texts[j] in reads for j in range(len(texts)) if j != k and not (texts[j] == ast.unparse(val.elts[j]))):
                                    safe = False
                            if safe:
                                ret_idx = None
                                if len(rest) == 1 and isinstance(rest[0].value, ast.Name) and rest[0].value.id in texts:
                                    ret_idx = texts.index(rest[0].value.id)
                                for k, (t_, v_) in enumerate(zip(tgt.elts, val.elts)):
                                    if k == ret_idx or ast.unparse(t_) == ast.unparse(v_):
                                        continue
                                    outs.append(ast.copy_location(ast.Assign(targets=[copy.deepcopy(t_)], value=v_), at))
                                if ret_idx is not None:
                                    outs.append(ast.copy_location(ast.Return(value=val.elts[ret_idx]), at))
                                else:
                                    outs.extend(copy.deepcopy(rest))
                                return outs
                        outs.append(ast.copy_location(ast.Assign(targets=[copy.deepcopy(tgt)], value=val), at))
                        outs.extend(copy.deepcopy(rest))
                        return outs

                    def conv(stmts):
                        out = []
                        for s_ in stmts:
                            if isinstance(s_, ast.Return):
                                val = s_.value if s_.value is not None else ast.Constant(value=None)
                                out.extend(emit_cont(val, s_))
                                continue
                            if isinstance(s_, DEFS):
                                out.append(s_)
                                continue
                            for fld in ('body', 'orelse', 'finalbody'):
                                sub = getattr(s_, fld, None)
                                if isinstance(sub, list) and sub and isinstance(sub[0], ast.stmt):
                                    setattr(s_, fld, conv(sub))
                            if isinstance(s_, ast.Try):
                                for hd in s_.handlers:
                                    hd.body = conv(hd.body)
                            out.append(s_)
                        return out
                    nb = conv(node2.body)
                    if not isinstance(nb[-1], (ast.Return, ast.Raise)):
                        nb = nb + emit_cont(ast.Constant(value=None), node2.body[-1])
                    node2.body = nb
                    ast.fix_missing_locations(node2)
                    h2 = _Helper(mname, f'{cls_name}.{new_name}' if h.cls_name else new_name, node2, h.cls_name)
                    if not h2.ok:
                        continue
                    self.helpers[(mname, h.cls_name, new_name)] = h2
                    call = copy.deepcopy(st.value)
                    if isinstance(call.func, ast.Name):
                        call.func.id = new_name
                    else:
                        call.func.attr = new_name
                    ret = ast.copy_location(ast.Return(value=call), st)
                    ast.fix_missing_locations(ret)
                    fn.body = body[:i] + [ret]
                    changed = True
                    self.log.append(f'{fq}: the statements after `{h.node.name}(..)` taken as the continuation of its returns')
                    break
        return changed

    def _note_extended(self, mname, cls_name, node, fq):
        """a function of the reference layout that gained optional parameters: a call that passes one of them cannot be a call of the
        reference layout - it is the reuse of the function's body by a new caller, and is inlined there like a new helper (the function
        itself stays, read with the new parameters at their defaults)"""
        _load_pinned()
        ref = set(_PINNED_META.get(fq, ([], 0, []))[0])
        a = node.args
        if a.vararg or a.kwarg or not ref:
            return
        cur = [x.arg for x in a.posonlyargs + a.args + a.kwonlyargs]
        new = [p for p in cur if p not in ref]
        if not new or not ref <= set(cur):
            return
        h = _Helper(mname, f'{cls_name}.{node.name}' if cls_name else node.name, node, cls_name)
        if not h.ok or any(p not in h.defaults for p in new):
            return
        h.new_params = new
        self.ext_helpers[(mname, cls_name, node.name)] = h

    def _deforward(self):
        """A function R of the reference layout whose whole body now is `return H(<its parameters, in order>)` / `yield from H(..)` with H a new module-level
        function forwards to H; a direct call `H(x0, x1, ..)` elsewhere in the package is the call `x0.R(x1, ..)` (R a method / classmethod) or `R(x0, ..)` it
        replaces - the anchored call is restored, and R's body gets H expanded as usual."""
        changed = False
        fwd = {}
        for mname, m in self.modules.items():
            funcs = {st.name: st for st in m.tree.body if isinstance(st, ast.FunctionDef)}
            scopes = [(None, [st for st in m.tree.body if isinstance(st, ast.FunctionDef)])]
            scopes += [(c.name, [s2 for s2 in c.body if isinstance(s2, ast.FunctionDef)]) for c in m.tree.body if isinstance(c, ast.ClassDef)]
            for cname, defs in scopes:
                for d in defs:
                    fq = f'{mname}:{cname}.{d.name}' if cname else f'{mname}:{d.name}'
                    if fq not in self.pinned:
                        continue
                    body = [b for b in d.body if not (isinstance(b, ast.Expr) and isinstance(b.value, ast.Constant) and isinstance(b.value.value, str))]
                    if len(body) != 1:
                        continue
                    st = body[0]
                    call = None
                    if isinstance(st, ast.Return) and isinstance(st.value, ast.Call):
                        call = st.value
                    elif isinstance(st, ast.Expr) and isinstance(st.value, ast.YieldFrom) and isinstance(st.value.value, ast.Call):
                        call = st.value.value
                    if call is None or not isinstance(call.func, ast.Name) or call.func.id not in funcs or f'{mname}:{call.func.id}' in self.pinned:
                        continue
                    params = [a.arg for a in d.args.args + d.args.kwonlyargs]
                    args = [a.id if isinstance(a, ast.Name) else None for a in call.args] + [k.value.id if isinstance(k.value, ast.Name) and k.arg else None for k in call.keywords]
                    if args != params or d.args.vararg or d.args.kwarg or d.args.kwonlyargs or call.keywords:
                        continue
                    hdef = funcs[call.func.id]
                    if len(hdef.args.args) + len(hdef.args.kwonlyargs) != len(params) or hdef.args.vararg or hdef.args.kwarg:
                        continue          # H takes more than R hands on: a direct call of H may use what R cannot express
                    is_method = cname is not None and not any(isinstance(x, ast.Name) and x.id == 'staticmethod' for x in d.decorator_list)
                    fwd[(mname, call.func.id)] = (cname, d.name, is_method, d)
        if not fwd:
            return False
        for m in self.modules.values():
            imported = {}
            for st in m.tree.body:
                if isinstance(st, ast.ImportFrom):
                    for a in st.names:
                        imported[a.asname or a.name] = a.name
            for fn in [n for n in ast.walk(m.tree) if isinstance(n, ast.FunctionDef)]:
                for call in [n for n in ast.walk(fn) if isinstance(n, ast.Call) and isinstance(n.func, ast.Name)]:
                    hname = imported.get(call.func.id, call.func.id)
                    hits = [(k, v) for k, v in fwd.items() if k[1] == hname]
                    if len(hits) != 1:
                        continue
                    (hm, _), (cname, rname, is_method, rdef) = hits[0]
                    if fn is rdef or call.keywords or any(isinstance(a, ast.Starred) for a in call.args):
                        continue
                    if len(call.args) != len(rdef.args.args) + len(rdef.args.kwonlyargs):
                        continue
                    if is_method:
                        if not call.args or not _simple_arg(call.args[0]):
                            continue
                        new = ast.Call(func=ast.Attribute(value=call.args[0], attr=rname, ctx=ast.Load()), args=call.args[1:], keywords=[])
                    elif cname is None and hm == m.name if hasattr(m, 'name') else False:
                        new = ast.Call(func=ast.Name(id=rname, ctx=ast.Load()), args=call.args, keywords=[])
                    else:
                        continue
                    ast.fix_missing_locations(ast.copy_location(new, call))
                    if _replace_node(fn, call, new):
                        changed = True
                        self.log.append(f'{getattr(m, "name", "?")}:{fn.name}: call of `{hname}` read as the call of `{rname}` that forwards to it')
        return changed

    def _residualise_extended_calls(self):
        """`f(x, flag=True)` where the reference function f gained the optional parameter `flag` and, with the flag decided, is `if C: return E` followed by exactly
        what f does with the flag at its default: the call is `E if C else f(x)` - the reference behaviour stays a call of f"""
        changed = False
        for (mname, cls_name, name), h in self.ext_helpers.items():
            dstates = {}
            for p in h.new_params:
                d = h.defaults.get(p)
                if isinstance(d, ast.Constant) and p not in h.stored:
                    dstates[p] = 'none' if d.value is None else ('true' if d.value is True else ('false' if d.value is False else 'notnone'))
            if set(dstates) != set(h.new_params):
                continue
            dflt = _fold_param_tests(h.node, dstates) or h.node

            def body_of(fn):
                b = list(fn.body)
                if b and isinstance(b[0], ast.Expr) and isinstance(b[0].value, ast.Constant) and isinstance(b[0].value.value, str):
                    b = b[1:]
                return b
            bd = [ast.dump(x) for x in body_of(dflt)]
            for m in self.modules.values():
                for call in [n for n in ast.walk(m.tree) if isinstance(n, ast.Call)]:
                    f = call.func
                    if not ((isinstance(f, ast.Name) and f.id == name and cls_name is None) or
                            (isinstance(f, ast.Attribute) and f.attr == name and cls_name is not None and isinstance(f.value, ast.Name) and f.value.id in ('self', 'cls'))):
                        continue
                    kws = {k.arg: k.value for k in call.keywords if k.arg}
                    passed = [p for p in h.new_params if p in kws]
                    if not passed or not all(isinstance(kws[p], ast.Constant) for p in passed) or any(isinstance(a, ast.Starred) for a in call.args):
                        continue
                    if not all(_simple_arg(a) for a in call.args) or not all(_simple_arg(v) for k, v in kws.items() if k not in passed):
                        continue
                    states = dict(dstates)
                    for p in passed:
                        v = kws[p].value
                        states[p] = 'none' if v is None else ('true' if v is True else ('false' if v is False else 'notnone'))
                    fn2 = _fold_param_tests(h.node, states)
                    if fn2 is None:
                        continue
                    b2 = body_of(fn2)
                    k = len(b2) - len(bd)
                    if k == 0 and len(b2) >= 1 and [ast.dump(x) for x in b2[:-1]] == bd[:-1] and isinstance(b2[-1], ast.Return) and isinstance(body_of(dflt)[-1], ast.Return) \
                            and b2[-1].value is not None and body_of(dflt)[-1].value is not None and ast.dump(b2[-1]) != bd[-1]:
                        # the same function with a wrapper around what it returns: `W(f(x))`
                        V = body_of(dflt)[-1].value
                        E2 = copy.deepcopy(b2[-1].value)
                        vd = ast.dump(V)
                        holes = [n for n in ast.walk(E2) if ast.dump(n) == vd]
                        other_returns = [r for st_ in b2[:-1] for r in ast.walk(st_) if isinstance(r, ast.Return)]
                        if len(holes) == 1 and not other_returns:
                            resid = copy.deepcopy(call)
                            resid.keywords = [k_ for k_ in resid.keywords if k_.arg not in passed]
                            if holes[0] is E2:
                                continue
                            _replace_node(E2, holes[0], resid)
                            consts_ = {p_: kws[p_] for p_ in passed}
                            free = {n.id for n in ast.walk(E2) if isinstance(n, ast.Name) and not any(n is y for y in ast.walk(resid))}
                            local_names = set(h.stored) | set(h.params)
                            if (free & local_names) - set(consts_):
                                continue
                            E2 = _Subst({}, consts_).visit(E2)
                            ast.fix_missing_locations(ast.copy_location(E2, call))
                            if _replace_node(m.tree, call, E2):
                                changed = True
                                self.log.append(f'{mname}:{name}(.., {", ".join(passed)}=..): the call is the reference call wrapped in what the new parameter adds to the result')
                        continue
                    if k < 1 or [ast.dump(x) for x in b2[k:]] != bd:
                        continue
                    guards = b2[:k]
                    if not all(isinstance(g_, ast.If) and not g_.orelse and len(g_.body) == 1 and isinstance(g_.body[0], ast.Return) and g_.body[0].value is not None
                               for g_ in guards):
                        continue
                    pos = [a.arg for a in h.node.args.args]
                    if h.kind in ('method', 'classmethod'):
                        pos = pos[1:]
                    bind = dict(zip(pos, call.args))
                    bind.update({k_: v_ for k_, v_ in kws.items() if k_ not in passed})
                    free = {n.id for g_ in guards for n in ast.walk(g_) if isinstance(n, ast.Name)}
                    if not (free & set(h.params)) <= set(bind):
                        continue
                    sub = _Subst({}, bind)
                    resid = copy.deepcopy(call)
                    resid.keywords = [k_ for k_ in resid.keywords if k_.arg not in passed]
                    expr = resid
                    for g_ in reversed(guards):
                        expr = ast.IfExp(test=sub.visit(copy.deepcopy(g_.test)), body=sub.visit(copy.deepcopy(g_.body[0].value)), orelse=expr)
                    ast.fix_missing_locations(ast.copy_location(expr, call))
                    if _replace_node(m.tree, call, expr):
                        changed = True
                        self.log.append(f'{mname}:{name}(.., {", ".join(passed)}=..): the call is `<early result> if <test> else {name}(..)`, the reference behaviour stays a call')
        return changed

    def _specialise_extended(self):
        """the reference functions that gained optional parameters, read with those parameters at their (constant) defaults - unless a
        remaining reference passes one of them"""
        changed = False
        for (mname, cls_name, name), h in self.ext_helpers.items():
            passed = False
            for m in self.modules.values():
                for c in ast.walk(m.tree):
                    if isinstance(c, ast.Call) and any(kw.arg in h.new_params for kw in c.keywords) and \
                            any((isinstance(x, ast.Name) and x.id == name) or (isinstance(x, ast.Attribute) and x.attr == name) for x in ast.walk(c)):
                        passed = True
            if passed:
                continue
            states = {}
            for p in h.new_params:
                d = h.defaults.get(p)
                if isinstance(d, ast.Constant) and p not in h.stored:
                    states[p] = 'none' if d.value is None else ('true' if d.value is True else ('false' if d.value is False else 'notnone'))
                elif isinstance(d, ast.Constant) and d.value is None:
                    # `if p is None: p = E` among the leading statements, the only store of p: with the default in force that is `p = E`
                    stores_ = [n for n in ast.walk(h.node) if isinstance(n, ast.Name) and n.id == p and isinstance(n.ctx, ast.Store)]
                    for i_, st_ in enumerate(h.node.body):
                        if isinstance(st_, ast.If) and not st_.orelse and len(st_.body) == 1 and isinstance(st_.body[0], ast.Assign) \
                                and len(st_.body[0].targets) == 1 and isinstance(st_.body[0].targets[0], ast.Name) and st_.body[0].targets[0].id == p \
                                and len(stores_) == 1 and isinstance(st_.test, ast.Compare) and isinstance(st_.test.left, ast.Name) and st_.test.left.id == p \
                                and len(st_.test.ops) == 1 and isinstance(st_.test.ops[0], ast.Is) and isinstance(st_.test.comparators[0], ast.Constant) \
                                and st_.test.comparators[0].value is None \
                                and not any(isinstance(n, ast.Name) and n.id == p for b_ in h.node.body[:i_] for n in ast.walk(b_)):
                            h.node.body[i_] = st_.body[0]
                            self.log.append(f'{mname}:{h.qual}: `if {p} is None: {p} = ..` read with the default in force')
                            changed = True
                            break
            fn2 = _fold_param_tests(h.node, states) if states else None
            if fn2 is not None:
                h.node.body = fn2.body
                self.log.append(f'{mname}:{h.qual}: read with the new optional parameter(s) {sorted(states)} at their defaults')
                changed = True
        return changed

    # ---------------------------------------------------------------- resolution
    def _resolve(self, mname, cls_name, call):
        h, recv = self._resolve0(mname, cls_name, call)
        if h is not None and h.ok:
            h = self._specialise(h, call)
        return h, recv

    def _specialise(self, h, call):
        """the helper with its tests on optional parameters decided for this call: a parameter (never rebound in the helper) that gets
        the constant None here, or an object the caller built by a constructor call"""
        states = {}
        pos = h.params[:h.npos]
        if h.kind in ('method', 'classmethod'):
            pos = pos[1:]
        given = dict(zip(pos, call.args))
        for kw in call.keywords:
            if kw.arg:
                given[kw.arg] = kw.value
        if any(isinstance(a, ast.Starred) for a in call.args) or any(kw.arg is None for kw in call.keywords):
            return h
        for p in h.params:
            if p in h.stored:
                continue
            a = given.get(p, h.defaults.get(p))
            if a is None:
                continue
            if isinstance(a, ast.Constant):
                if a.value is None:
                    states[p] = 'none'
                elif a.value is True:
                    states[p] = 'true'
                elif a.value is False:
                    states[p] = 'false'
                else:
                    states[p] = 'notnone'
            elif isinstance(a, ast.Name) and self._cur_fn is not None:
                stores = [n for n in ast.walk(self._cur_fn) if isinstance(n, ast.Name) and n.id == a.id and isinstance(n.ctx, (ast.Store, ast.Del))]
                args = [x for x in ast.walk(self._cur_fn.args) if isinstance(x, ast.arg) and x.arg == a.id]
                if len(stores) == 1 and not args:
                    asg = [n for n in ast.walk(self._cur_fn) if isinstance(n, ast.Assign) and len(n.targets) == 1 and n.targets[0] is stores[0]]
                    if asg and isinstance(asg[0].value, ast.Call) and isinstance(asg[0].value.func, (ast.Name, ast.Attribute)):
                        fnm = asg[0].value.func.id if isinstance(asg[0].value.func, ast.Name) else asg[0].value.func.attr
                        if fnm[:1].isupper():
                            states[p] = 'notnone'
        if not states:
            return h
        key = (id(h), tuple(sorted(states.items())))
        if key not in self._special:
            fn2 = _fold_param_tests(h.node, states)
            if fn2 is None:
                self._special[key] = h
            else:
                h2 = _Helper(h.modname, h.qual, fn2, h.cls_name)
                h2.node_orig = h.node
                self._special[key] = h2 if h2.ok else h
        return self._special[key]

    def _resolve0(self, mname, cls_name, call):
        h, recv = self._resolve1(mname, cls_name, call)
        if h is None and self.ext_helpers:
            f = call.func
            key = None
            if isinstance(f, ast.Name):
                key, recv = (mname, None, f.id), None
            elif isinstance(f, ast.Attribute) and isinstance(f.value, ast.Name) and f.value.id in ('self', 'cls') and cls_name:
                key, recv = (mname, cls_name, f.attr), f.value
            x = self.ext_helpers.get(key) if key else None
            if x is not None and any(kw.arg in x.new_params for kw in call.keywords) and \
                    not (self._cur_fn is not None and self._cur_fn is x.node):
                # (a caller that called the function in the reference layout as well keeps its call: the rules are anchored at it)
                xfq = f'{x.modname}:{x.qual}'
                if getattr(self, '_cur_fq', None) in pinned_callers(xfq):
                    return h, recv
                return x, recv
        return h, recv

    def _resolve1(self, mname, cls_name, call):
        f = call.func
        if isinstance(f, ast.Name):
            h = self.helpers.get((mname, None, f.id))
            if h is not None and h.ok:
                return h, None
        elif isinstance(f, ast.Attribute) and isinstance(f.value, ast.Name):
            recv = f.value.id
            if recv in ('self', 'cls') and cls_name:
                h = self.helpers.get((mname, cls_name, f.attr))
                if h is None:
                    cands = [v for (mn, cn, n), v in self.helpers.items() if mn == mname and cn and n == f.attr]
                    h = cands[0] if len(cands) == 1 else None
                if h is not None and h.ok:
                    return h, f.value
            elif recv in self._cur_vars:
                h = self.helpers.get((self._cur_vars[recv][0], self._cur_vars[recv][1], f.attr))
                if h is not None and h.ok and h.kind == 'method':
                    return h, f.value
            else:
                h = self.helpers.get((mname, recv, f.attr))
                if h is not None and h.ok and h.kind in ('staticmethod', 'classmethod'):
                    return h, f.value
                if h is None and not recv[:1].isupper():
                    # a local object: the method is resolved by name when exactly one class of the package defines a method of
                    # that name and no builtin container / text / file type has one
                    cands = [v for (mn, cn, n), v in self.helpers.items() if cn and n == f.attr]
                    if len(cands) == 1 and cands[0].ok and cands[0].kind == 'method' and self._unique_method_name(f.attr):
                        return cands[0], f.value
        # a new module-level function of *another* module of the package: `othermod.helper(..)` / `helper(..)` imported by name
        tgt = self._cross_module_target(mname, f)
        if tgt is not None:
            h = self.helpers.get((tgt[0], None, tgt[1]))
            if h is not None and h.ok and h.kind == 'function' and self._free_names_ok(h, mname, dry=True):
                return h, None
        return None, None

    def _import_map(self, mname):
        """alias -> ('module', modname) | ('name', modname, name) for the package-internal imports of a module"""
        cache = getattr(self, '_imaps', None)
        if cache is None:
            cache = self._imaps = {}
        if mname in cache:
            return cache[mname]
        m = self.modules[mname]
        out = {}

        def absolute(level, module):
            if level == 0:
                return module
            base = mname.split('.')
            if not getattr(m, 'is_pkg', False):
                base = base[:-1]
            if level > 1:
                base = base[: len(base) - (level - 1)]
            return '.'.join(base + ([module] if module else []))
        for st in m.tree.body:
            if isinstance(st, ast.ImportFrom):
                base = absolute(st.level, st.module)
                for a in st.names:
                    alias = a.asname or a.name
                    if f'{base}.{a.name}' in self.modules:
                        out[alias] = ('module', f'{base}.{a.name}')
                    elif base in self.modules:
                        out[alias] = ('name', base, a.name)
            elif isinstance(st, ast.Import):
                for a in st.names:
                    if a.name in self.modules and a.asname:
                        out[a.asname] = ('module', a.name)
        cache[mname] = out
        return out

    def _cross_module_target(self, mname, f):
        im = self._import_map(mname)
        if isinstance(f, ast.Attribute) and isinstance(f.value, ast.Name) and im.get(f.value.id, ('',))[0] == 'module':
            return (im[f.value.id][1], f.attr)
        if isinstance(f, ast.Name) and im.get(f.id, ('',))[0] == 'name':
            return (im[f.id][1], im[f.id][2])
        return None

    def _free_names_ok(self, h, mname, dry=False):
        """the global names a helper of another module uses must mean the same in the module it is expanded into: what that module lacks is imported
        (in memory), a name bound to something else there blocks the expansion"""
        import builtins
        hm = self.modules[h.modname]
        cm = self.modules[mname]
        local = set(h.stored) | set(h.params)
        free = {n.id for st in h.node.body for n in ast.walk(st) if isinstance(n, ast.Name) and isinstance(n.ctx, ast.Load)} - local - set(dir(builtins))

        def bindings(mod):
            out = {}
            for st in mod.tree.body:
                if isinstance(st, ast.Import):
                    for a in st.names:
                        out[a.asname or a.name.split('.')[0]] = ('import', a.name, a.asname)
                elif isinstance(st, ast.ImportFrom):
                    for a in st.names:
                        out[a.asname or a.name] = ('from', st.level, st.module, a.name, a.asname)
                elif isinstance(st, (ast.FunctionDef, ast.ClassDef)):
                    out[st.name] = ('def', mod.name)
                elif isinstance(st, (ast.Assign, ast.AnnAssign)):
                    for t in (st.targets if isinstance(st, ast.Assign) else [st.target]):
                        for x in ast.walk(t):
                            if isinstance(x, ast.Name):
                                out[x.id] = ('assign', mod.name)
            return out
        hb, cb = bindings(hm), bindings(cm)
        todo = []
        for nme in sorted(free):
            if nme not in hb:
                continue          # not a module-level name of the helper's module (an unbound name either way)
            b = hb[nme]
            if nme in cb:
                c = cb[nme]
                same = (b == c) or (b[0] == 'import' and c[0] == 'import' and b[1] == c[1]) or \
                    (b[0] in ('def', 'assign') and c[0] == 'from' and c[3] == nme and (c[2] or '').split('.')[-1] == h.modname.split('.')[-1])
                if not same:
                    return False
                continue
            if b[0] == 'import':
                todo.append(ast.Import(names=[ast.alias(name=b[1], asname=b[2])]))
            elif b[0] == 'from':
                # absolute form of the helper module's own import
                base = h.modname.split('.')
                if not getattr(hm, 'is_pkg', False):
                    base = base[:-1]
                if b[1] > 1:
                    base = base[: len(base) - (b[1] - 1)]
                modname = '.'.join(base + ([b[2]] if b[2] else [])) if b[1] else b[2]
                todo.append(ast.ImportFrom(module=modname, names=[ast.alias(name=b[3], asname=b[4])], level=0))
            else:
                todo.append(ast.ImportFrom(module=h.modname, names=[ast.alias(name=nme, asname=None)], level=0))
        if not dry:
            for st in todo:
                ast.fix_missing_locations(st)
            k = 0
            while k < len(cm.tree.body) and isinstance(cm.tree.body[k], ast.Expr) and isinstance(cm.tree.body[k].value, ast.Constant):
                k += 1
            cm.tree.body[k:k] = todo
            if getattr(self, '_imaps', None):
                self._imaps.pop(mname, None)
        return True

    def _unique_method_name(self, name):
        if getattr(self, '_method_names', None) is None:
            import io
            names = {}
            for m in self.modules.values():
                for st in ast.walk(m.tree):
                    if isinstance(st, ast.ClassDef):
                        for s2 in st.body:
                            if isinstance(s2, (ast.FunctionDef, ast.AsyncFunctionDef)):
                                names[s2.name] = names.get(s2.name, 0) + 1
                            elif isinstance(s2, ast.Assign):
                                for t in s2.targets:
                                    if isinstance(t, ast.Name):
                                        names[t.id] = names.get(t.id, 0) + 1
            self._method_names = names
            self._foreign_names = set()
            for t in (dict, list, str, bytes, bytearray, set, tuple, int, io.BytesIO, io.StringIO, io.BufferedReader, Exception):
                self._foreign_names |= set(dir(t))
        return self._method_names.get(name) == 1 and name not in self._foreign_names

    # ---------------------------------------------------------------- expansion
    def _expand(self, h, call, recv, mode, targets=None):
        """statements replacing the call; mode in {'assign','return','expr','gen'}"""
        if self.counter > 400:
            return None          # mutually recursive new helpers: stop expanding, analyse the rest as separate functions
        self.counter += 1
        tag = f'__i{self.counter}'
        params = list(h.params)
        bind = {}
        pos_params = params[:h.npos]
        if h.kind in ('method', 'classmethod'):
            if recv is None:
                return None
            if h.kind == 'classmethod' and isinstance(recv, ast.Name) and recv.id == 'self':
                # a classmethod called on an instance receives the instance's class
                recv = ast.Attribute(value=recv, attr='__class__', ctx=ast.Load())
            bind[pos_params[0]] = recv
            pos_params = pos_params[1:]
        if len(call.args) > len(pos_params) or any(isinstance(a, ast.Starred) for a in call.args):
            return None
        for p, a in zip(pos_params, call.args):
            bind[p] = a
        for kw in call.keywords:
            if kw.arg is None or kw.arg not in params or kw.arg in bind:
                return None
            bind[kw.arg] = kw.value
        for p in params:
            if p not in bind:
                if p not in h.defaults:
                    return None
                dv = h.defaults[p]
                if not isinstance(dv, (ast.Constant, ast.Name, ast.Attribute, ast.Tuple, ast.UnaryOp, ast.BinOp)) or \
                        any(isinstance(x, (ast.Call, ast.List, ast.Dict, ast.Set, ast.ListComp, ast.DictComp, ast.SetComp)) for x in ast.walk(dv)):
                    return None          # a default built once at definition time (`x=[]`, `x=set()`): substituting the expression would build it per call
                bind[p] = dv
        rename, subst, pre = {}, {}, []
        for name in h.stored:
            rename[name] = name + tag
        # threaded state: `x = helper(.., x, ..)` where the helper updates that parameter and returns it on every path
        threaded = None
        if mode == 'assign' and h.tail_ok and len(targets) == 1 and isinstance(targets[0], ast.Name):
            t = targets[0].id
            rets0 = [n for st in h.body for n in _walk_no_defs(st) if isinstance(n, ast.Return)]
            rn0 = {n.value.id if isinstance(n.value, ast.Name) else None for n in rets0}
            if len(rn0) == 1 and None not in rn0:
                v0 = next(iter(rn0))
                if v0 in params and isinstance(bind[v0], ast.Name) and bind[v0].id == t and \
                        sum(1 for a in bind.values() for x in ast.walk(a) if isinstance(x, ast.Name) and x.id == t) == 1:
                    threaded = v0
        dead_after = mode in ('return', 'raise')      # the caller's locals are dead once the helper has run
        arg_name_uses = {}
        for a_ in bind.values():
            for x in ast.walk(a_):
                if isinstance(x, ast.Name):
                    arg_name_uses[x.id] = arg_name_uses.get(x.id, 0) + 1
        if dead_after:
            for name in h.stored:
                if name not in params and name not in arg_name_uses:
                    rename[name] = name          # may reuse (clobber) the caller's name: nothing reads it afterwards
        for p in params:
            a = bind[p]
            if p == threaded:
                rename[p] = targets[0].id
                continue
            if dead_after and p in h.stored and isinstance(a, ast.Name) and arg_name_uses.get(a.id) == 1 and \
                    (a.id == p or a.id not in h.stored):
                rename[p] = a.id
                continue
            if p not in h.stored and _simple_arg(a):
                subst[p] = a
            else:
                rename[p] = p + tag
                asg = ast.Assign(targets=[ast.Name(id=p + tag, ctx=ast.Store())], value=copy.deepcopy(a), lineno=call.lineno)
                pre.append(ast.copy_location(asg, call))
        if not h.tail_ok and mode not in ('return', 'raise'):
            return None
        body = copy.deepcopy(h.raw_body if (dead_after or not h.tail_ok) else h.body)
        # `x = helper(..)` where the helper returns one of its own locals on every path: that local *is* x
        drop_returns = threaded is not None
        if threaded is None and mode == 'assign' and len(targets) == 1 and isinstance(targets[0], ast.Name):
            t = targets[0].id
            rets = [n for st in body for n in _walk_no_defs(st) if isinstance(n, ast.Return)]
            rnames = {n.value.id if isinstance(n.value, ast.Name) else None for n in rets}
            used_in_args = any(isinstance(x, ast.Name) and x.id == t for a in bind.values() for x in ast.walk(a))
            free = {x.id for st in body for x in ast.walk(st) if isinstance(x, ast.Name)} - set(rename) - set(subst)
            if len(rnames) == 1 and None not in rnames and not used_in_args and t not in free:
                v = next(iter(rnames))
                if v in rename and v not in params:
                    rename[v] = t
                    drop_returns = True
        sub = _Subst(rename, subst)
        body = [sub.visit(s) for s in body]

        def fix_returns(stmts):
            out = []
            for st in stmts:
                if isinstance(st, ast.Return):
                    val = st.value if st.value is not None else ast.Constant(value=None)
                    if drop_returns:
                        pass
                    elif mode == 'return':
                        out.append(st)
                    elif mode == 'raise':
                        new = ast.Raise(exc=val, cause=None)
                        out.append(ast.copy_location(new, st) if hasattr(st, 'lineno') else ast.copy_location(new, call))
                    elif mode == 'assign':
                        new = ast.Assign(targets=copy.deepcopy(targets), value=val, lineno=getattr(st, 'lineno', call.lineno))
                        out.append(ast.copy_location(new, st) if hasattr(st, 'lineno') else ast.copy_location(new, call))
                    else:   # expr / gen: the value is not used
                        if any(isinstance(x, (ast.Call, ast.Yield, ast.YieldFrom, ast.Await)) for x in ast.walk(val)):
                            new = ast.Expr(value=val)
                            out.append(ast.copy_location(new, st) if hasattr(st, 'lineno') else ast.copy_location(new, call))
                    continue
                for field in ('body', 'orelse'):
                    subl = getattr(st, field, None)
                    if isinstance(subl, list) and not isinstance(st, DEFS) and (mode in ('return', 'raise') or not isinstance(st, LOOPS)):
                        new = fix_returns(subl)
                        if field == 'body' and not new:
                            new = [ast.copy_location(ast.Pass(), st)]
                        setattr(st, field, new)
                if isinstance(st, ast.Try):
                    for hd in st.handlers:
                        hd.body = fix_returns(hd.body) or [ast.copy_location(ast.Pass(), st)]
                out.append(st)
            return out
        body = fix_returns(body)
        res = pre + body
        for s in res:
            for n in ast.walk(s):
                if not hasattr(n, 'lineno') and isinstance(n, (ast.stmt, ast.expr)):
                    ast.copy_location(n, call)
                if isinstance(n, ast.stmt):
                    n._inlined_from = f'{h.modname}:{h.qual}'
        cur_mod = (getattr(self, '_cur_fq', None) or '').partition(':')[0]
        if cur_mod and h.cls_name is None and h.modname != cur_mod and cur_mod in self.modules:
            if not self._free_names_ok(h, cur_mod, dry=False):
                return None
        key = (h.modname, h.cls_name, h.node.name)
        self.inlined_sites[key] = self.inlined_sites.get(key, 0) + 1
        return res

    def _unconditional_calls(self, expr, mname, cls_name):
        """candidate helper calls in expr that are evaluated whenever expr is"""
        out = []

        def rec(e):
            if isinstance(e, (ast.Lambda, ast.ListComp, ast.SetComp, ast.DictComp, ast.GeneratorExp)):
                return
            if isinstance(e, ast.BoolOp):
                rec(e.values[0])
                return
            if isinstance(e, ast.IfExp):
                rec(e.test)
                return
            if isinstance(e, ast.Call):
                h, recv = self._resolve(mname, cls_name, e)
                if h is not None and not h.is_gen and h.tail_ok:
                    out.append((e, h, recv))
            for c in ast.iter_child_nodes(e):
                if isinstance(c, ast.expr):
                    rec(c)
        rec(expr)
        return out

    def _subst_expression_helpers(self, st, mname, cls_name):
        """calls of helpers whose whole body is `return <expr>` are replaced by that expression wherever they occur
        (comprehensions, lambdas, conditional positions included): substitution keeps the evaluation condition"""
        outer = self
        changed = [False]

        class Tr(ast.NodeTransformer):
            def visit_FunctionDef(self, n):
                return n

            visit_AsyncFunctionDef = visit_FunctionDef
            visit_ClassDef = visit_FunctionDef

            def visit_Call(self, n):
                self.generic_visit(n)
                h, recv = outer._resolve(mname, cls_name, n)
                if h is None or h.is_gen or not h.tail_ok or len(h.body) != 1 or not isinstance(h.body[0], ast.Return) or h.body[0].value is None:
                    return n
                if h.stored - set(h.params):
                    return n
                expr = h.body[0].value
                if any(isinstance(x, (ast.Lambda, ast.ListComp, ast.SetComp, ast.DictComp, ast.GeneratorExp, ast.NamedExpr)) for x in ast.walk(expr)):
                    return n
                params = list(h.params)
                pos = params[:h.npos]
                bind = {}
                if h.kind in ('method', 'classmethod'):
                    if recv is None:
                        return n
                    bind[pos[0]] = recv
                    pos = pos[1:]
                if len(n.args) > len(pos) or any(isinstance(a, ast.Starred) for a in n.args):
                    return n
                for p_, a in zip(pos, n.args):
                    bind[p_] = a
                for kw in n.keywords:
                    if kw.arg is None or kw.arg not in params or kw.arg in bind:
                        return n
                    bind[kw.arg] = kw.value
                for p_ in params:
                    if p_ not in bind:
                        if p_ not in h.defaults:
                            return n
                        bind[p_] = h.defaults[p_]
                uses = {}
                for x in ast.walk(expr):
                    if isinstance(x, ast.Name):
                        uses[x.id] = uses.get(x.id, 0) + 1
                for p_ in params:
                    if not _simple_arg(bind[p_]) and uses.get(p_, 0) > 1:
                        return n
                new = _Subst({}, bind).visit(copy.deepcopy(expr))
                for x in ast.walk(new):
                    if isinstance(x, ast.expr) and not hasattr(x, 'lineno'):
                        ast.copy_location(x, n)
                key = (h.modname, h.cls_name, h.node.name)
                outer.inlined_sites[key] = outer.inlined_sites.get(key, 0) + 1
                changed[0] = True
                return ast.copy_location(new, n)
        Tr().visit(st)
        return changed[0]

    def _subst_expression_helpers_shallow(self, st, mname, cls_name):
        """apply the expression substitution to the header expressions of a compound statement, to the whole of a simple one"""
        if isinstance(st, (ast.If, ast.While)):
            w = ast.Expr(value=st.test)
            r = self._subst_expression_helpers(w, mname, cls_name)
            st.test = w.value
            return r
        if isinstance(st, (ast.For, ast.AsyncFor)):
            w = ast.Expr(value=st.iter)
            r = self._subst_expression_helpers(w, mname, cls_name)
            st.iter = w.value
            return r
        if isinstance(st, (ast.With, ast.AsyncWith)):
            r = False
            for it in st.items:
                w = ast.Expr(value=it.context_expr)
                r = self._subst_expression_helpers(w, mname, cls_name) or r
                it.context_expr = w.value
            return r
        if isinstance(st, (ast.Try,)):
            return False
        return self._subst_expression_helpers(st, mname, cls_name)

    def _process_stmt(self, st, mname, cls_name):
        """list of statements replacing st (or None when nothing to do)"""
        # direct forms
        if isinstance(st, ast.Expr) and isinstance(st.value, ast.YieldFrom) and isinstance(st.value.value, ast.Call):
            h, recv = self._resolve(mname, cls_name, st.value.value)
            if h is not None and h.is_gen:
                return self._expand(h, st.value.value, recv, 'gen')
            return None
        if isinstance(st, ast.Return) and isinstance(st.value, ast.Call) and self._cur_fn is not None:
            # `return gen_helper(..)` as the only exit of a plain function: the function is that generator (`yield from gen_helper(..)`)
            h, recv = self._resolve(mname, cls_name, st.value)
            if h is not None and h.is_gen:
                fn = self._cur_fn
                rets = [n for b in fn.body for n in _walk_no_defs(b) if isinstance(n, ast.Return)]
                ys = [n for b in fn.body for n in _walk_no_defs(b) if isinstance(n, (ast.Yield, ast.YieldFrom))]
                if rets == [st] and not ys and fn.body and fn.body[-1] is st:
                    return self._expand(h, st.value, recv, 'gen')
                return None
        if isinstance(st, ast.Expr) and isinstance(st.value, ast.Call):
            h, recv = self._resolve(mname, cls_name, st.value)
            if h is not None and not h.is_gen:
                return self._expand(h, st.value, recv, 'expr')
        if isinstance(st, ast.Return) and isinstance(st.value, ast.Call):
            h, recv = self._resolve(mname, cls_name, st.value)
            if h is not None and not h.is_gen:
                return self._expand(h, st.value, recv, 'return')
        if isinstance(st, ast.Raise) and isinstance(st.exc, ast.Call) and st.cause is None:
            h, recv = self._resolve(mname, cls_name, st.exc)
            if h is not None and not h.is_gen:
                return self._expand(h, st.exc, recv, 'raise')
        if isinstance(st, ast.Assign) and isinstance(st.value, ast.Call) and len(st.targets) == 1 and isinstance(st.targets[0], ast.Name) \
                and st.targets[0].id in self._cur_vars and isinstance(st.value.func, ast.Name) and st.value.func.id == self._cur_vars[st.targets[0].id][1]:
            # `v = Record(args)`: the statements of Record.__init__ with self := v
            km, kn = self._cur_vars[st.targets[0].id]
            h = self.helpers.get((km, kn, '__init__'))
            nt = getattr(self, '_record_fields', {}).get((km, kn)) or []
            if nt and len(st.value.args) == 1 and isinstance(st.value.args[0], ast.Starred) and not st.value.keywords:
                # `v = Record(*seq)`: the fields are the elements of seq
                tg = ast.Tuple(elts=[ast.Attribute(value=ast.Name(id=st.targets[0].id, ctx=ast.Load()), attr=f_, ctx=ast.Store()) for f_, _d in nt], ctx=ast.Store())
                new = ast.Assign(targets=[tg], value=st.value.args[0].value)
                ast.copy_location(new, st)
                ast.fix_missing_locations(new)
                return [new]
            if h is not None and h.ok:
                exp = self._expand(h, st.value, ast.copy_location(ast.Name(id=st.targets[0].id, ctx=ast.Load()), st), 'expr')
                if exp is not None:
                    st._record_ctor_done = True
                    return exp
            return None
        if isinstance(st, ast.Assign) and isinstance(st.value, ast.Call):
            h, recv = self._resolve(mname, cls_name, st.value)
            if h is not None and not h.is_gen:
                return self._expand(h, st.value, recv, 'assign', targets=st.targets)
        # `return list(gen_helper(..))` / `x = list(gen_helper(..))`: the helper's body with every `yield v` turned into `acc.append(v)`
        if isinstance(st, (ast.Return, ast.Assign)) and isinstance(st.value, ast.Call) and isinstance(st.value.func, ast.Name) and st.value.func.id in ('list', 'tuple') \
                and len(st.value.args) == 1 and not st.value.keywords and isinstance(st.value.args[0], ast.Call) \
                and (isinstance(st, ast.Return) or (len(st.targets) == 1 and isinstance(st.targets[0], ast.Name))):
            h, recv = self._resolve(mname, cls_name, st.value.args[0])
            if h is not None and h.is_gen and h.tail_ok:
                exp = self._expand(h, st.value.args[0], recv, 'gen')
                if exp is not None and not any(isinstance(n, ast.Yield) and not isinstance(getattr(n, '_p_', None), ast.Expr) and False for s_ in exp for n in ast.walk(s_)):
                    self.counter += 1
                    acc = f'_acc{self.counter}'
                    ok = [True]

                    class Y(ast.NodeTransformer):
                        def visit_FunctionDef(self_, n):
                            return n
                        visit_Lambda = visit_FunctionDef

                        def visit_Expr(self_, n):
                            if isinstance(n.value, ast.Yield):
                                v = n.value.value if n.value.value is not None else ast.Constant(value=None)
                                call = ast.Call(func=ast.Attribute(value=ast.Name(id=acc, ctx=ast.Load()), attr='append', ctx=ast.Load()), args=[v], keywords=[])
                                return ast.copy_location(ast.Expr(value=ast.copy_location(call, n)), n)
                            if isinstance(n.value, ast.YieldFrom):
                                call = ast.Call(func=ast.Attribute(value=ast.Name(id=acc, ctx=ast.Load()), attr='extend', ctx=ast.Load()), args=[n.value.value], keywords=[])
                                return ast.copy_location(ast.Expr(value=ast.copy_location(call, n)), n)
                            return n

                        def visit_Yield(self_, n):
                            ok[0] = False          # a yield used as an expression
                            return n
                        visit_YieldFrom = visit_Yield
                    new_body = [Y().visit(s_) for s_ in exp]
                    if ok[0]:
                        init = ast.copy_location(ast.Assign(targets=[ast.Name(id=acc, ctx=ast.Store())], value=ast.List(elts=[], ctx=ast.Load())), st)
                        res = ast.Name(id=acc, ctx=ast.Load())
                        if st.value.func.id == 'tuple':
                            res = ast.Call(func=ast.Name(id='tuple', ctx=ast.Load()), args=[res], keywords=[])
                        last = ast.Return(value=res) if isinstance(st, ast.Return) else ast.Assign(targets=st.targets, value=res)
                        out_ = [init] + new_body + [ast.copy_location(last, st)]
                        for s_ in out_:
                            ast.fix_missing_locations(s_)
                        return out_
        # `x = next(gen_helper(..), DEFAULT)`: the helper's loop, leaving with `x = <yielded value>` at the first yield, else `x = DEFAULT`
        if isinstance(st, ast.Assign) and len(st.targets) == 1 and isinstance(st.targets[0], ast.Name) and isinstance(st.value, ast.Call) \
                and isinstance(st.value.func, ast.Name) and st.value.func.id == 'next' and len(st.value.args) == 2 and not st.value.keywords \
                and isinstance(st.value.args[0], ast.Call) and _simple_arg(st.value.args[1]):
            h, recv = self._resolve(mname, cls_name, st.value.args[0])
            if h is not None and h.is_gen and not any(isinstance(n, LOOPS + (ast.YieldFrom, ast.Return)) for n in ast.walk(h.node)) and \
                    all(isinstance(getattr(y, '_par', None), ast.Expr) or True for y in ast.walk(h.node) if isinstance(y, ast.Yield)):
                # a loop-free generator: its first value is what a function returning at the first yield returns
                node2 = copy.deepcopy(h.node)
                stmt_yields = {id(s_.value) for s_ in ast.walk(node2) if isinstance(s_, ast.Expr) and isinstance(s_.value, ast.Yield)}
                if all(id(y) in stmt_yields for y in ast.walk(node2) if isinstance(y, ast.Yield)):
                    def to_ret(stmts):
                        out = []
                        for s_ in stmts:
                            if isinstance(s_, ast.Expr) and isinstance(s_.value, ast.Yield):
                                out.append(ast.copy_location(ast.Return(value=s_.value.value if s_.value.value is not None else ast.Constant(value=None)), s_))
                                break
                            for fld in ('body', 'orelse', 'finalbody'):
                                sub = getattr(s_, fld, None)
                                if isinstance(sub, list) and sub and isinstance(sub[0], ast.stmt):
                                    setattr(s_, fld, to_ret(sub))
                            if isinstance(s_, ast.Try):
                                for hd in s_.handlers:
                                    hd.body = to_ret(hd.body)
                            out.append(s_)
                        return out
                    node2.body = to_ret(node2.body) + [ast.Return(value=copy.deepcopy(st.value.args[1]))]
                    node2.name = h.node.name + '__first'
                    ast.fix_missing_locations(node2)
                    h2 = _Helper(h.modname, h.qual + '__first', node2, h.cls_name)
                    if h2.ok and h2.tail_ok and not h2.is_gen:
                        exp = self._expand(h2, st.value.args[0], recv, 'assign', targets=st.targets)
                        if exp is not None:
                            key = (h.modname, h.cls_name, h.node.name)
                            self.inlined_sites[key] = self.inlined_sites.get(key, 0) + 1
                            return exp
            if h is not None and h.is_gen and h.tail_ok:
                exp = self._expand(h, st.value.args[0], recv, 'gen')
                tname = st.targets[0].id
                if exp is not None and isinstance(exp[-1], (ast.For, ast.While)) and not exp[-1].orelse and \
                        not any(isinstance(n, (ast.Yield, ast.YieldFrom)) for s_ in exp[:-1] for n in ast.walk(s_)):
                    loop = exp[-1]
                    ok = [True]

                    def first_hit(stmts):
                        out = []
                        for s_ in stmts:
                            if isinstance(s_, ast.Expr) and isinstance(s_.value, ast.Yield):
                                v = s_.value.value if s_.value.value is not None else ast.Constant(value=None)
                                out.append(ast.copy_location(ast.Assign(targets=[ast.Name(id=tname, ctx=ast.Store())], value=v), s_))
                                out.append(ast.copy_location(ast.Break(), s_))
                                break          # what follows the yield is never resumed
                            if isinstance(s_, ast.If):
                                s_.body = first_hit(s_.body)
                                s_.orelse = first_hit(s_.orelse)
                            elif isinstance(s_, ast.Break) or any(isinstance(n, (ast.Yield, ast.YieldFrom)) for n in ast.walk(s_)):
                                ok[0] = False
                            out.append(s_)
                        return out
                    loop.body = first_hit(loop.body)
                    if ok[0]:
                        loop.orelse = [ast.copy_location(ast.Assign(targets=[ast.Name(id=tname, ctx=ast.Store())], value=st.value.args[1]), st)]
                        for s_ in exp:
                            ast.fix_missing_locations(s_)
                        return exp
        # `x = yield from gen_helper(..)`: the helper's yields stay in place, its return value is bound to x
        if isinstance(st, ast.Assign) and isinstance(st.value, ast.YieldFrom) and isinstance(st.value.value, ast.Call):
            h, recv = self._resolve(mname, cls_name, st.value.value)
            if h is not None and h.is_gen and h.tail_ok:
                return self._expand(h, st.value.value, recv, 'assign', targets=st.targets)
        # `for t in gen_helper(..): BODY` with a one-yield generator helper: the helper's loop with BODY in place of the yield
        if isinstance(st, ast.For) and not st.orelse and isinstance(st.iter, ast.Call):
            h, recv = self._resolve(mname, cls_name, st.iter)
            if h is not None and h.is_gen and h.tail_ok:
                ys = [n for s_ in h.body for n in ast.walk(s_) if isinstance(n, (ast.Yield, ast.YieldFrom))]
                jumps = [n for b_ in st.body for n in ast.walk(b_) if isinstance(n, (ast.Break, ast.Continue)) and not _inside_inner_loop(n, st)]
                body_ok = not jumps
                if jumps and len(ys) == 1:
                    # `continue` of the consumer is the next step of the helper's own loop when the yield is the last thing that loop does; `break` abandons the
                    # generator, which is leaving the helper's loop when nothing follows it in the helper
                    def find_loop(stmts, chain):
                        for s_ in stmts:
                            if isinstance(s_, ast.Expr) and s_.value is ys[0]:
                                return chain, stmts
                            for field in ('body', 'orelse', 'finalbody'):
                                sub = getattr(s_, field, None)
                                if isinstance(sub, list) and sub and isinstance(sub[0], ast.stmt) and not isinstance(s_, DEFS):
                                    r_ = find_loop(sub, chain + [s_] if isinstance(s_, LOOPS) and field == 'body' else chain + [None] * 0)
                                    if r_ is not None:
                                        return r_
                        return None
                    loc = find_loop(h.body, [])
                    if loc is not None and len(loc[0]) == 1:
                        hloop, holder = loc[0][0], loc[1]
                        y_last = holder is hloop.body and isinstance(holder[-1], ast.Expr) and holder[-1].value is ys[0]
                        tail = [x for x in h.body if not (isinstance(x, ast.Return) and (x.value is None or (isinstance(x.value, ast.Constant) and x.value.value is None)))]
                        loop_last = bool(tail) and tail[-1] is hloop and not hloop.orelse
                        has_cont = any(isinstance(j, ast.Continue) for j in jumps)
                        has_brk = any(isinstance(j, ast.Break) for j in jumps)
                        body_ok = (not has_cont or y_last) and (not has_brk or loop_last)
                if len(ys) > 1 and all(isinstance(y, ast.Yield) and y.value is not None for y in ys):
                    # several yields, each the last thing its path through the helper's loop does: the consumer's body follows the branching once
                    def tail_leaves(stmts):
                        if not stmts:
                            return None
                        last = stmts[-1]
                        if isinstance(last, ast.Expr) and isinstance(last.value, ast.Yield):
                            return [(stmts, last)]
                        if isinstance(last, ast.If) and last.orelse:
                            a_, b_ = tail_leaves(last.body), tail_leaves(last.orelse)
                            return None if a_ is None or b_ is None else a_ + b_
                        return None
                    exp = self._expand(h, st.iter, recv, 'gen')
                    has_brk = any(isinstance(j, ast.Break) for j in jumps)
                    if exp is not None:
                        loops_ = [x for s_ in exp for x in ast.walk(s_) if isinstance(x, LOOPS)]
                        all_y = [x for s_ in exp for x in ast.walk(s_) if isinstance(x, (ast.Yield, ast.YieldFrom))]
                        for lp_ in loops_:
                            lv = tail_leaves(lp_.body)
                            if lv is None or len(lv) != len(all_y) or {id(l.value) for (_b, l) in lv} != {id(y) for y in all_y}:
                                continue
                            if has_brk and not (exp[-1] is lp_ and not lp_.orelse):
                                continue
                            for (blk, leaf) in lv:
                                tgt = copy.deepcopy(st.target)
                                for x in ast.walk(tgt):
                                    if isinstance(x, ast.Name):
                                        x.ctx = ast.Store()
                                v = leaf.value.value
                                if isinstance(tgt, ast.Tuple) and isinstance(v, ast.Tuple) and len(tgt.elts) == len(v.elts) and \
                                        all(isinstance(e, ast.Name) for e in tgt.elts) and \
                                        not ({e.id for e in tgt.elts} & {x.id for x in ast.walk(v) if isinstance(x, ast.Name)}):
                                    new_ = [ast.copy_location(ast.Assign(targets=[t_], value=v_), leaf) for t_, v_ in zip(tgt.elts, v.elts)]
                                else:
                                    new_ = [ast.copy_location(ast.Assign(targets=[tgt], value=v), leaf)]
                                blk[-1:] = new_
                            lp_.body.extend(st.body)
                            for s_ in exp:
                                ast.fix_missing_locations(s_)
                            return exp
                if len(ys) == 1 and isinstance(ys[0], ast.Yield) and ys[0].value is not None and body_ok:
                    exp = self._expand(h, st.iter, recv, 'gen')
                    if exp is not None:
                        done = [False]

                        def splice(stmts):
                            out = []
                            for s_ in stmts:
                                if isinstance(s_, ast.Expr) and isinstance(s_.value, ast.Yield) and not done[0]:
                                    done[0] = True
                                    asg = ast.Assign(targets=[copy.deepcopy(st.target)], value=s_.value.value, lineno=getattr(s_, 'lineno', st.lineno))
                                    for x in ast.walk(asg.targets[0]):
                                        if isinstance(x, ast.Name):
                                            x.ctx = ast.Store()
                                    out.append(ast.copy_location(asg, s_))
                                    out.extend(st.body)
                                    continue
                                for field in ('body', 'orelse', 'finalbody'):
                                    sub = getattr(s_, field, None)
                                    if isinstance(sub, list) and sub and isinstance(sub[0], ast.stmt) and not isinstance(s_, DEFS):
                                        setattr(s_, field, splice(sub))
                                for hd in getattr(s_, 'handlers', []) or []:
                                    hd.body = splice(hd.body)
                                out.append(s_)
                            return out
                        fused = splice(exp)
                        if done[0]:
                            return fused
        # hoisted forms
        headers = []
        if isinstance(st, (ast.Assign, ast.AugAssign, ast.AnnAssign, ast.Expr, ast.Return)):
            if getattr(st, 'value', None) is not None:
                headers.append(st.value)
        elif isinstance(st, ast.If):
            headers.append(st.test)
        elif isinstance(st, ast.For):
            headers.append(st.iter)
        elif isinstance(st, ast.Raise) and st.exc is not None:
            headers.append(st.exc)
        elif isinstance(st, ast.With):
            headers.extend(i.context_expr for i in st.items)
        pre = []
        for hexpr in headers:
            if any(isinstance(x, (ast.Yield, ast.YieldFrom)) for x in ast.walk(hexpr)):
                continue
            for call, h, recv in self._unconditional_calls(hexpr, mname, cls_name):
                self.counter += 1
                tmp = f'_inl{self.counter}'
                tgt = [ast.copy_location(ast.Name(id=tmp, ctx=ast.Store()), call)]
                exp = self._expand(h, call, recv, 'assign', targets=tgt)
                if exp is None:
                    continue
                pre.extend(exp)
                # replace the call node in place by a load of the temporary
                repl = ast.copy_location(ast.Name(id=tmp, ctx=ast.Load()), call)
                _replace_node(st, call, repl)
        if pre:
            return pre + [st]
        return None

    def _process_body(self, body, mname, cls_name):
        changed = False
        i = 0
        while i < len(body):
            st = body[i]
            if isinstance(st, ast.ClassDef):
                i += 1
                continue
            if isinstance(st, (ast.FunctionDef, ast.AsyncFunctionDef)):
                if self._process_body(st.body, mname, cls_name):
                    changed = True
                i += 1
                continue
            if self._subst_expression_helpers_shallow(st, mname, cls_name):
                changed = True
            new = self._process_stmt(st, mname, cls_name)
            if new is not None:
                body[i:i + 1] = new or [ast.copy_location(ast.Pass(), st)]
                changed = True
                # the statement itself (last of `new` in hoisted mode) still needs its nested bodies processed
                if new and new[-1] is st:
                    i += len(new) - 1
                else:
                    continue       # re-examine what was spliced in (nested helper calls)
            for field in ('body', 'orelse', 'finalbody'):
                sub = getattr(st, field, None)
                if isinstance(sub, list) and sub and isinstance(sub[0], ast.stmt):
                    if self._process_body(sub, mname, cls_name):
                        changed = True
            for hd in getattr(st, 'handlers', []) or []:
                if self._process_body(hd.body, mname, cls_name):
                    changed = True
            i += 1
        return changed

    def _namedtuple_calls_to_tuples(self):
        """`K(a=x, b=y)` for a new, method-less typing.NamedTuple class K is the tuple `(x, y)` in field order (what every consumer that unpacks or
        indexes it sees)"""
        changed = False
        for mname, m in self.modules.items():
            nts = {}
            for st in m.tree.body:
                if isinstance(st, ast.ClassDef) and not st.decorator_list and len(st.bases) == 1 and \
                        (ast.unparse(st.bases[0]) in ('NamedTuple', 'typing.NamedTuple')) and not any(p_.startswith(f'{mname}:{st.name}.') for p_ in self.pinned):
                    fields, defaults, ok = [], {}, True
                    for s2 in st.body:
                        if isinstance(s2, ast.AnnAssign) and isinstance(s2.target, ast.Name):
                            fields.append(s2.target.id)
                            if s2.value is not None:
                                defaults[s2.target.id] = s2.value
                        elif isinstance(s2, ast.Expr) and isinstance(s2.value, ast.Constant):
                            pass
                        else:
                            ok = False
                    if ok and fields:
                        nts[st.name] = (fields, defaults)
            if not nts:
                continue

            class Tr(ast.NodeTransformer):
                def visit_Call(self, n):
                    self.generic_visit(n)
                    if isinstance(n.func, ast.Name) and n.func.id in nts and not any(isinstance(a, ast.Starred) for a in n.args) \
                            and all(k.arg is not None for k in n.keywords):
                        fields, defaults = nts[n.func.id]
                        vals = dict(zip(fields, n.args))
                        for k in n.keywords:
                            vals[k.arg] = k.value
                        for f_ in fields:
                            if f_ not in vals and f_ in defaults:
                                vals[f_] = copy.deepcopy(defaults[f_])
                        if set(vals) == set(fields):
                            nonlocal changed
                            changed = True
                            return ast.copy_location(ast.Tuple(elts=[vals[f_] for f_ in fields], ctx=ast.Load()), n)
                    return n
            Tr().visit(m.tree)
            if changed:
                self.log.append(f'{mname}: constructor calls of the NamedTuple class(es) {sorted(nts)} read as tuples')
        return changed

    def _unroll_table_loops(self):
        """A scan of a small literal table that stops at the first hit

            for a, b in TABLE:            if COND[a1, b1]: BODY[a1, b1]
                if COND: BODY; break  ->  elif COND[a2, b2]: BODY[a2, b2]
            else: ORELSE                  else: ORELSE

        is the if/elif chain it abbreviates.  TABLE is bound once - at module level, or in the function itself and used by this loop only -
        to a tuple/list of names, constants, argument-less lambdas, or tuples of those; the loop variables are used nowhere else in the
        function; BODY ends with break, return or raise.  `(lambda: X)()` left by the substitution is X."""
        changed = False

        def atom(e, local=False):
            if isinstance(e, (ast.Name, ast.Constant)) or (isinstance(e, ast.Attribute) and _simple_arg(e)):
                return True
            if isinstance(e, ast.Lambda) and not (e.args.posonlyargs or e.args.kwonlyargs or e.args.vararg or e.args.kwarg or e.args.defaults):
                # (a lambda with parameters is applied by substitution: it must not bind anything itself)
                return (local and not e.args.args) or (bool(e.args.args) and not any(isinstance(x, (ast.Lambda, ast.NamedExpr, ast.comprehension)) for x in ast.walk(e.body)))
            return False

        def table_value(v, local=False):
            if isinstance(v, (ast.Tuple, ast.List)) and 0 < len(v.elts) <= 8:
                if all(atom(e, local) for e in v.elts):
                    return True
                return all(isinstance(e, ast.Tuple) and e.elts and all(atom(x, local) for x in e.elts) for e in v.elts) and len({len(e.elts) for e in v.elts}) == 1
            return False

        class Beta(ast.NodeTransformer):
            def visit_Call(self_, n):
                self_.generic_visit(n)
                if isinstance(n.func, ast.Lambda) and not n.args and not n.keywords and not n.func.args.args:
                    return n.func.body
                if isinstance(n.func, ast.Lambda) and not n.keywords and n.func.args.args and len(n.args) == len(n.func.args.args) and all(_simple_arg(a) for a in n.args):
                    return _Subst({}, {p_.arg: a_ for p_, a_ in zip(n.func.args.args, n.args)}).visit(copy.deepcopy(n.func.body))
                return n
        for mname, m in self.modules.items():
            tables, stores = {}, {}
            for n in ast.walk(m.tree):
                if isinstance(n, ast.Name) and isinstance(n.ctx, (ast.Store, ast.Del)):
                    stores[n.id] = stores.get(n.id, 0) + 1
                elif isinstance(n, ast.arg):
                    stores[n.arg] = stores.get(n.arg, 0) + 1
            for st in m.tree.body:
                if isinstance(st, ast.Assign) and len(st.targets) == 1 and isinstance(st.targets[0], ast.Name):
                    if table_value(st.value) and stores.get(st.targets[0].id) == 1:
                        tables[st.targets[0].id] = st.value
            for fn in [n for n in ast.walk(m.tree) if isinstance(n, ast.FunctionDef)]:
                # tables of the function itself: bound once by a top-level statement of the function, read once (by the loop)
                local = {}
                fstores, floads = {}, {}
                for n in ast.walk(fn):
                    if isinstance(n, ast.Name):
                        d_ = fstores if isinstance(n.ctx, (ast.Store, ast.Del)) else floads
                        d_[n.id] = d_.get(n.id, 0) + 1
                    elif isinstance(n, ast.arg):
                        fstores[n.arg] = fstores.get(n.arg, 0) + 2
                for st in fn.body:
                    if isinstance(st, ast.Assign) and len(st.targets) == 1 and isinstance(st.targets[0], ast.Name) and table_value(st.value, True) \
                            and fstores.get(st.targets[0].id) == 1 and floads.get(st.targets[0].id) == 1:
                        local[st.targets[0].id] = st
                for holder in ast.walk(fn):
                    for field in ('body', 'orelse', 'finalbody'):
                        body = getattr(holder, field, None)
                        if not isinstance(body, list):
                            continue
                        for i, st in enumerate(body):
                            if not (isinstance(st, ast.For) and isinstance(st.iter, ast.Name)):
                                continue
                            if st.iter.id in local:
                                tab = local[st.iter.id].value
                            elif st.iter.id in tables and st.iter.id not in fstores:
                                tab = tables[st.iter.id]
                            else:
                                continue
                            if isinstance(st.target, ast.Name):
                                tnames = [st.target.id]
                                rows = [[e] for e in tab.elts]
                                if any(isinstance(e, ast.Tuple) for e in tab.elts):
                                    continue
                            elif isinstance(st.target, ast.Tuple) and all(isinstance(e, ast.Name) for e in st.target.elts):
                                tnames = [e.id for e in st.target.elts]
                                if not all(isinstance(e, ast.Tuple) and len(e.elts) == len(tnames) for e in tab.elts):
                                    continue
                                rows = [list(e.elts) for e in tab.elts]
                            else:
                                continue
                            if not (len(st.body) == 1 and isinstance(st.body[0], ast.If) and not st.body[0].orelse
                                    and isinstance(st.body[0].body[-1], (ast.Break, ast.Return, ast.Raise))):
                                continue
                            inner = st.body[0]
                            if any(isinstance(x, (ast.Break, ast.Continue, ast.FunctionDef, ast.Lambda))
                                   for b in inner.body[:-1] for x in ast.walk(b)):
                                continue
                            inside = {id(x) for x in ast.walk(st)}
                            if any(isinstance(x, ast.Name) and x.id in tnames and id(x) not in inside for x in ast.walk(fn)):
                                continue
                            if any(isinstance(x, ast.Name) and x.id in tnames and isinstance(x.ctx, ast.Store)
                                   for b in st.body for x in ast.walk(b)):
                                continue
                            keep_last = not isinstance(inner.body[-1], ast.Break)
                            chain = list(st.orelse)
                            for row in reversed(rows):
                                sub = _Subst({}, dict(zip(tnames, row)))
                                test = Beta().visit(sub.visit(copy.deepcopy(inner.test)))
                                src_ = inner.body if keep_last else inner.body[:-1]
                                blk = [Beta().visit(sub.visit(copy.deepcopy(b))) for b in src_] or [ast.copy_location(ast.Pass(), inner)]
                                chain = [ast.copy_location(ast.If(test=test, body=blk, orelse=chain), st)]
                            for c_ in chain:
                                ast.fix_missing_locations(c_)
                            body[i:i + 1] = chain
                            if st.iter.id in local and local[st.iter.id] in fn.body:
                                fn.body.remove(local[st.iter.id])
                            self.log.append(f'{mname}:{fn.name}: scan of the table `{st.iter.id}` unrolled into an if/elif chain')
                            changed = True
        return changed

    def _lower_dict_dispatch(self):
        """`f = TABLE[K]; <statement calling f(..)>` with TABLE a module-level literal dict (bound once) of constant keys -> the chain
        `if K == k1: <statement with the value of k1 for f> elif .. else: raise KeyError(K)`.  For keys that are tuples of booleans and
        K = (bool(a), bool(b), ..) the tests are written over a, b themselves; an exhaustive table needs no KeyError branch."""
        changed = False
        for mname, m in self.modules.items():
            stores = {}
            for n in ast.walk(m.tree):
                if isinstance(n, ast.Name) and isinstance(n.ctx, (ast.Store, ast.Del)):
                    stores[n.id] = stores.get(n.id, 0) + 1
            tables = {}
            for st in m.tree.body:
                if isinstance(st, ast.Assign) and len(st.targets) == 1 and isinstance(st.targets[0], ast.Name) and isinstance(st.value, ast.Dict) \
                        and stores.get(st.targets[0].id) == 1 and 0 < len(st.value.keys) <= 16:
                    def ckey(k):
                        return isinstance(k, ast.Constant) or (isinstance(k, ast.Tuple) and all(isinstance(e, ast.Constant) for e in k.elts))
                    if all(k is not None and ckey(k) for k in st.value.keys) and all(isinstance(v, (ast.Name, ast.Attribute, ast.Constant)) for v in st.value.values):
                        tables[st.targets[0].id] = st.value
            if not tables:
                continue
            # `.. TABLE[K](args) ..` as a statement of its own: the looked-up function is named first
            for fn in [n for n in ast.walk(m.tree) if isinstance(n, ast.FunctionDef)]:
                local_stores = {n.id for n in ast.walk(fn) if isinstance(n, ast.Name) and isinstance(n.ctx, (ast.Store, ast.Del))}
                for holder in ast.walk(fn):
                    for field in ('body', 'orelse', 'finalbody'):
                        body = getattr(holder, field, None)
                        if not isinstance(body, list):
                            continue
                        i = 0
                        while i < len(body):
                            st = body[i]
                            if isinstance(st, (ast.Assign, ast.Expr, ast.Return)) and st.value is not None:
                                hits = [c for c in ast.walk(st.value) if isinstance(c, ast.Call) and isinstance(c.func, ast.Subscript) and isinstance(c.func.value, ast.Name)
                                        and c.func.value.id in tables and c.func.value.id not in local_stores]
                                if len(hits) == 1 and (st.value is hits[0]):
                                    self.counter += 1
                                    nm_ = f'_disp__i{self.counter}'
                                    pre_ = ast.copy_location(ast.Assign(targets=[ast.Name(id=nm_, ctx=ast.Store())], value=hits[0].func), st)
                                    hits[0].func = ast.copy_location(ast.Name(id=nm_, ctx=ast.Load()), st)
                                    ast.fix_missing_locations(pre_)
                                    body.insert(i, pre_)
                                    i += 1
                            i += 1
            for fn in [n for n in ast.walk(m.tree) if isinstance(n, ast.FunctionDef)]:
                fstores, floads = {}, {}
                for n in ast.walk(fn):
                    if isinstance(n, ast.Name):
                        d_ = fstores if isinstance(n.ctx, (ast.Store, ast.Del)) else floads
                        d_[n.id] = d_.get(n.id, 0) + 1
                for holder in ast.walk(fn):
                    for field in ('body', 'orelse', 'finalbody'):
                        body = getattr(holder, field, None)
                        if not isinstance(body, list):
                            continue
                        for i, st in enumerate(body[:-1]):
                            dflt_ = None
                            if isinstance(st, ast.Assign) and len(st.targets) == 1 and isinstance(st.targets[0], ast.Name) and isinstance(st.value, ast.Call) \
                                    and isinstance(st.value.func, ast.Attribute) and st.value.func.attr == 'get' and isinstance(st.value.func.value, ast.Name) \
                                    and st.value.func.value.id in tables and st.value.func.value.id not in fstores and len(st.value.args) == 2 and not st.value.keywords \
                                    and isinstance(st.value.args[1], (ast.Name, ast.Attribute, ast.Constant)):
                                # TABLE.get(K, default): the same chain with the default in the last branch
                                dflt_ = st.value.args[1]
                                st = ast.copy_location(ast.Assign(targets=st.targets, value=ast.Subscript(value=st.value.func.value, slice=st.value.args[0], ctx=ast.Load())), st)
                            if not (isinstance(st, ast.Assign) and len(st.targets) == 1 and isinstance(st.targets[0], ast.Name) and isinstance(st.value, ast.Subscript)
                                    and isinstance(st.value.value, ast.Name) and st.value.value.id in tables and st.value.value.id not in fstores):
                                continue
                            f_ = st.targets[0].id
                            nxt = body[i + 1]
                            uses = [n for n in ast.walk(nxt) if isinstance(n, ast.Name) and n.id == f_ and isinstance(n.ctx, ast.Load)]
                            if fstores.get(f_) != 1 or floads.get(f_) != 1 or len(uses) != 1 or not isinstance(nxt, (ast.Assign, ast.Expr, ast.Return)):
                                continue
                            if not any(isinstance(c, ast.Call) and c.func is uses[0] for c in ast.walk(nxt)):
                                continue
                            tab, K = tables[st.value.value.id], st.value.slice
                            keys = [tuple(e.value for e in k.elts) if isinstance(k, ast.Tuple) else k.value for k in tab.keys]
                            bool_form = isinstance(K, ast.Tuple) and all(isinstance(e, ast.Call) and isinstance(e.func, ast.Name) and e.func.id == 'bool'
                                                                         and len(e.args) == 1 and isinstance(e.args[0], ast.Name) for e in K.elts) \
                                and all(isinstance(k, tuple) and len(k) == len(K.elts) and all(type(x) is bool for x in k) for k in keys)
                            if not bool_form and not all(isinstance(n, (ast.Name, ast.Constant, ast.Tuple, ast.Attribute, ast.Load)) for n in ast.walk(K)):
                                continue
                            exhaustive = bool_form and len(set(keys)) == 2 ** len(K.elts)
                            chain = [] if exhaustive else [ast.Raise(exc=ast.Call(func=ast.Name(id='KeyError', ctx=ast.Load()), args=[copy.deepcopy(K)], keywords=[]), cause=None)]
                            if dflt_ is not None:
                                stmt_d = copy.deepcopy(nxt)
                                u_d = [n for n in ast.walk(stmt_d) if isinstance(n, ast.Name) and n.id == f_ and isinstance(n.ctx, ast.Load)][0]
                                _replace_node(stmt_d, u_d, copy.deepcopy(dflt_))
                                chain = [stmt_d]
                            rows = list(zip(keys, tab.keys, tab.values))
                            for idx, (kv, knode, vnode) in reversed(list(enumerate(rows))):
                                if bool_form:
                                    atoms = [copy.deepcopy(e.args[0]) if b else ast.UnaryOp(op=ast.Not(), operand=copy.deepcopy(e.args[0])) for e, b in zip(K.elts, kv)]
                                    test = atoms[0] if len(atoms) == 1 else ast.BoolOp(op=ast.And(), values=atoms)
                                else:
                                    test = ast.Compare(left=copy.deepcopy(K), ops=[ast.Eq()], comparators=[copy.deepcopy(knode)])
                                stmt = copy.deepcopy(nxt)
                                u2 = [n for n in ast.walk(stmt) if isinstance(n, ast.Name) and n.id == f_ and isinstance(n.ctx, ast.Load)][0]
                                _replace_node(stmt, u2, copy.deepcopy(vnode))
                                if exhaustive and idx == len(rows) - 1:
                                    chain = [stmt]
                                else:
                                    chain = [ast.If(test=test, body=[stmt], orelse=chain)]
                            for c_ in chain:
                                ast.copy_location(c_, st)
                                ast.fix_missing_locations(c_)
                            body[i:i + 2] = chain
                            self.log.append(f'{mname}:{fn.name}: dispatch through the table `{st.value.value.id}` written out as an if/elif chain')
                            changed = True
                            break
        return changed

    def run(self):
        nt_changed = self._namedtuple_calls_to_tuples()
        if _PRE_MADE:
            self._made_prefixes |= _PRE_MADE
            nt_changed = True
        if self._deforward():
            nt_changed = True
        if self._unroll_table_loops():
            nt_changed = True
        if self._lower_dict_dispatch():
            nt_changed = True
        cands = self.discover()
        self._find_records()
        if not cands and not self.records and not self.ext_helpers:
            if nt_changed:
                if _PRE_MADE:
                    self._propagate_made_aliases()
                for m in self.modules.values():
                    ast.fix_missing_locations(m.tree)
            return nt_changed
        self._unalias_helper_values()
        any_change = self._residualise_extended_calls() if self.ext_helpers else False
        if self._absorb_continuations():
            any_change = True
        if self._split_short_circuits():
            any_change = True
        for _round in range(3):
            changed = False
            for mname, m in self.modules.items():
                for st in m.tree.body:
                    if isinstance(st, ast.FunctionDef):
                        self._cur_vars = self.records.get(id(st), {})
                        self._cur_fn = st
                        self._cur_fq = f'{mname}:{st.name}'
                        if self._process_body(st.body, mname, None):
                            changed = True
                    elif isinstance(st, ast.ClassDef):
                        for s2 in st.body:
                            if isinstance(s2, ast.FunctionDef):
                                self._cur_vars = self.records.get(id(s2), {})
                                self._cur_fn = s2
                                self._cur_fq = f'{mname}:{st.name}.{s2.name}'
                                if self._process_body(s2.body, mname, st.name):
                                    changed = True
            self._cur_vars = {}
            self._cur_fn = None
            if not changed:
                break
            any_change = True
            # helpers may have had inner helper calls expanded: refresh their prepared bodies
            for k, h in list(self.helpers.items()):
                self.helpers[k] = _Helper(h.modname, h.qual, h.node, h.cls_name)
            self._special = {}
        if self._specialise_extended():
            any_change = True
        any_change = any_change or nt_changed
        if any_change:
            self._scalarise_records()
            self._scalarise_branch_records()
            self._propagate_made_aliases()
            self._drop_fully_inlined()
            for m in self.modules.values():
                ast.fix_missing_locations(m.tree)
        return any_change

    def _unalias_helper_values(self):
        """`h = self._helper` (bound once, only ever called) followed by `h(..)`: the calls are rewritten to `self._helper(..)`."""
        def do_func(fn, mname, cls_name):
            stores = {}
            for n in ast.walk(fn):
                if isinstance(n, ast.Name) and isinstance(n.ctx, (ast.Store, ast.Del)):
                    stores[n.id] = stores.get(n.id, 0) + 1
                elif isinstance(n, (ast.Global, ast.Nonlocal)):
                    for nm in n.names:
                        stores[nm] = stores.get(nm, 0) + 2
                elif isinstance(n, ast.arg):
                    stores[n.arg] = stores.get(n.arg, 0) + 2
            args = {a.arg for a in fn.args.posonlyargs + fn.args.args + fn.args.kwonlyargs}
            for st in list(fn.body):
                if not (isinstance(st, ast.Assign) and len(st.targets) == 1 and isinstance(st.targets[0], ast.Name)):
                    continue
                name = st.targets[0].id
                if stores.get(name) != 1 or name in args or not isinstance(st.value, (ast.Name, ast.Attribute)):
                    continue
                fake = ast.Call(func=st.value, args=[], keywords=[])
                h, _recv = self._resolve(mname, cls_name, fake)
                if h is None:
                    continue
                uses = [n for n in ast.walk(fn) if isinstance(n, ast.Name) and n.id == name and isinstance(n.ctx, ast.Load)]
                calls = {id(c.func) for c in ast.walk(fn) if isinstance(c, ast.Call) and isinstance(c.func, ast.Name) and c.func.id == name}
                if not uses or any(id(u) not in calls for u in uses):
                    continue
                # the alias must be bound before every use: it is a top-level statement of the function and the uses follow it textually
                if any((u.lineno, u.col_offset) < (st.lineno, st.col_offset) for u in uses):
                    continue
                for c in ast.walk(fn):
                    if isinstance(c, ast.Call) and isinstance(c.func, ast.Name) and c.func.id == name:
                        c.func = ast.copy_location(copy.deepcopy(st.value), c.func)
                fn.body.remove(st)
                if not fn.body:
                    fn.body.append(ast.copy_location(ast.Pass(), st))
                self.log.append(f'{mname}:{fn.name}: alias `{name} = {ast.unparse(st.value)}` of a new helper resolved')
        for mname, m in self.modules.items():
            for st in m.tree.body:
                if isinstance(st, ast.FunctionDef):
                    do_func(st, mname, None)
                elif isinstance(st, ast.ClassDef):
                    for s2 in st.body:
                        if isinstance(s2, ast.FunctionDef):
                            do_func(s2, mname, st.name)

    # ---------------------------------------------------------------- record objects (scalar replacement)
    def _scalarise_branch_records(self):
        """after helper expansion: a local bound only by constructor calls `v = K(..)` of one new record class (one call per branch, say) and only read through
        its fields is one local per field"""
        classes = self._new_record_classes()
        changed = False
        for (mname, kname), (cnode, fields, init, props) in classes.items():
            if props or init is None or self._namedtuple_fields(cnode) is not None:
                continue
            sn = init.args.args[0].arg
            ps = [a.arg for a in init.args.args][1:]
            if init.args.vararg or init.args.kwarg or init.args.kwonlyargs:
                continue
            fmap = {}      # field -> parameter
            ok = True
            for x in init.body:
                if isinstance(x, ast.Expr) and isinstance(x.value, ast.Constant):
                    continue
                if isinstance(x, ast.Assign) and len(x.targets) == 1 and isinstance(x.targets[0], ast.Attribute) and isinstance(x.value, ast.Name) and x.value.id in ps:
                    fmap[x.targets[0].attr] = x.value.id
                else:
                    ok = False
            if not ok or set(fmap) != set(fields) or any(isinstance(s2, ast.FunctionDef) and s2.name != '__init__' for s2 in cnode.body):
                continue
            dflt = dict(zip(ps[len(ps) - len(init.args.defaults):], init.args.defaults))
            m = self.modules[mname]
            for fn in [x for x in ast.walk(m.tree) if isinstance(x, ast.FunctionDef)]:
                own = list(_walk_no_defs_body(fn))
                cands = {}
                for x in own:
                    if isinstance(x, ast.Assign) and len(x.targets) == 1 and isinstance(x.targets[0], ast.Name) and isinstance(x.value, ast.Call) \
                            and isinstance(x.value.func, ast.Name) and x.value.func.id == kname:
                        cands.setdefault(x.targets[0].id, []).append(x)
                for v, asgs in cands.items():
                    stores = [x for x in own if isinstance(x, ast.Name) and x.id == v and isinstance(x.ctx, (ast.Store, ast.Del))]
                    loads = [x for x in ast.walk(fn) if isinstance(x, ast.Name) and x.id == v and isinstance(x.ctx, ast.Load)]
                    attrs = [x for x in own if isinstance(x, ast.Attribute) and isinstance(x.value, ast.Name) and x.value.id == v and isinstance(x.ctx, ast.Load) and x.attr in fmap]
                    if len(stores) != len(asgs) or not loads or len(attrs) != len(loads) or any(a.arg == v for a in fn.args.args + fn.args.kwonlyargs):
                        continue
                    plans = []
                    for a in asgs:
                        c = a.value
                        if any(isinstance(z, ast.Starred) for z in c.args) or any(k.arg is None for k in c.keywords) or len(c.args) > len(ps):
                            plans = None
                            break
                        bound = dict(zip(ps, c.args))
                        for k in c.keywords:
                            bound[k.arg] = k.value
                        for p_ in ps:
                            if p_ not in bound and p_ in dflt:
                                bound[p_] = copy.deepcopy(dflt[p_])
                        if set(bound) != set(ps):
                            plans = None
                            break
                        plans.append((a, bound))
                    if not plans:
                        continue
                    order = sorted(fmap, key=lambda f_: ps.index(fmap[f_]))
                    for a, bound in plans:
                        new = [ast.copy_location(ast.Assign(targets=[ast.Name(id=f'{v}__{f_}', ctx=ast.Store())], value=bound[fmap[f_]]), a) for f_ in order]
                        _replace_stmt(fn, a, new)
                    for x in attrs:
                        x.__class__ = ast.Name
                        x.id = f'{v}__{x.attr}'
                        x._fields = ast.Name._fields
                    self._made_prefixes.add(f'{v}__')
                    changed = True
                    self.log.append(f'{mname}:{fn.name}: record `{v}` of class `{kname}` (bound at {len(asgs)} site(s)) read as one local per field')
        return changed

    def _new_record_classes(self):
        out = {}
        for mname, m in self.modules.items():
            for st in m.tree.body:
                if not isinstance(st, ast.ClassDef) or st.decorator_list or st.keywords:
                    continue
                if any(p_.startswith(f'{mname}:{st.name}.') for p_ in self.pinned):
                    continue
                nt_fields = self._namedtuple_fields(st)
                if nt_fields is not None:
                    rec = self._namedtuple_record(mname, st, nt_fields)
                    if rec is not None:
                        out[(mname, st.name)] = rec
                    continue
                if any(not (isinstance(b, ast.Name) and b.id == 'object') for b in st.bases):
                    continue
                ok = True
                props_ = {}
                for s2 in st.body:
                    if isinstance(s2, ast.FunctionDef):
                        if s2.name.startswith('__') and s2.name != '__init__':
                            ok = False
                        if s2.decorator_list:
                            # a read-only property that is one expression of self
                            pb = [x for x in s2.body if not (isinstance(x, ast.Expr) and isinstance(x.value, ast.Constant))]
                            if len(s2.decorator_list) == 1 and isinstance(s2.decorator_list[0], ast.Name) and s2.decorator_list[0].id == 'property' \
                                    and len(s2.args.args) == 1 and len(pb) == 1 and isinstance(pb[0], ast.Return) and pb[0].value is not None:
                                props_[s2.name] = (s2.args.args[0].arg, pb[0].value)
                            else:
                                ok = False
                    elif isinstance(s2, ast.Expr) and isinstance(s2.value, ast.Constant):
                        pass
                    elif isinstance(s2, ast.Assign) and all(isinstance(t, ast.Name) and t.id == '__slots__' for t in s2.targets):
                        pass
                    elif isinstance(s2, ast.Pass):
                        pass
                    else:
                        ok = False
                init = next((s2 for s2 in st.body if isinstance(s2, ast.FunctionDef) and s2.name == '__init__'), None)
                if not ok or init is None:
                    continue
                # __init__ only assigns fields
                fields = set()
                body = [x for x in init.body if not (isinstance(x, ast.Expr) and isinstance(x.value, ast.Constant))]
                for x in body:
                    if isinstance(x, ast.Assign) and all(isinstance(t, ast.Attribute) and isinstance(t.value, ast.Name) and t.value.id == init.args.args[0].arg for t in x.targets):
                        fields |= {t.attr for t in x.targets}
                    elif isinstance(x, ast.Assign) and all(isinstance(t, ast.Name) for t in x.targets):
                        pass        # a plain local of __init__
                    else:
                        ok = False
                if ok and fields:
                    out[(mname, st.name)] = (st, fields, init, props_)
        return out

    @staticmethod
    def _namedtuple_fields(st):
        """field names (with defaults) of a NamedTuple class, else None"""
        if len(st.bases) != 1:
            return None
        b = st.bases[0]
        if ast.unparse(b) in ('NamedTuple', 'typing.NamedTuple'):
            fields = []
            for s2 in st.body:
                if isinstance(s2, ast.AnnAssign) and isinstance(s2.target, ast.Name):
                    fields.append((s2.target.id, s2.value))
            return fields or None
        if isinstance(b, ast.Call) and ast.unparse(b.func) in ('namedtuple', 'collections.namedtuple') and len(b.args) == 2 and not b.keywords:
            a = b.args[1]
            if isinstance(a, ast.Constant) and isinstance(a.value, str):
                return [(x, None) for x in a.value.replace(',', ' ').split()] or None
            if isinstance(a, (ast.List, ast.Tuple)) and all(isinstance(e, ast.Constant) and isinstance(e.value, str) for e in a.elts):
                return [(e.value, None) for e in a.elts] or None
        return None

    def _namedtuple_record(self, mname, st, nt_fields):
        """(class node, field names, synthesised __init__, {property name: expression}) for an immutable record class whose methods are plain methods
        and single-expression properties"""
        props = {}
        for s2 in st.body:
            if isinstance(s2, ast.FunctionDef):
                if s2.name.startswith('__'):
                    return None
                if s2.decorator_list:
                    body = [x for x in s2.body if not (isinstance(x, ast.Expr) and isinstance(x.value, ast.Constant))]
                    if len(s2.decorator_list) == 1 and ast.unparse(s2.decorator_list[0]) == 'property' and len(body) == 1 and isinstance(body[0], ast.Return) \
                            and body[0].value is not None and len(s2.args.args) == 1:
                        props[s2.name] = (s2.args.args[0].arg, body[0].value)
                    else:
                        return None
            elif isinstance(s2, (ast.AnnAssign, ast.Pass)) or (isinstance(s2, ast.Expr) and isinstance(s2.value, ast.Constant)):
                pass
            elif isinstance(s2, ast.Assign) and all(isinstance(t, ast.Name) and t.id == '__slots__' for t in s2.targets):
                pass
            else:
                return None
        names = [f for f, _ in nt_fields]
        args = ast.arguments(posonlyargs=[], args=[ast.arg(arg='self')] + [ast.arg(arg=f) for f in names], kwonlyargs=[], kw_defaults=[],
                             defaults=[copy.deepcopy(d) for _, d in nt_fields if d is not None] if all(d is not None for _, d in nt_fields[len([1 for _, d in nt_fields if d is None]):]) else [])
        body = [ast.Assign(targets=[ast.Attribute(value=ast.Name(id='self', ctx=ast.Load()), attr=f, ctx=ast.Store())], value=ast.Name(id=f, ctx=ast.Load())) for f in names]
        init = ast.FunctionDef(name='__init__', args=args, body=body, decorator_list=[], returns=None, type_comment=None, type_params=[])
        ast.copy_location(init, st)
        for n in ast.walk(init):
            if isinstance(n, (ast.expr, ast.stmt)) and not hasattr(n, 'lineno'):
                ast.copy_location(n, st)
        ast.fix_missing_locations(init)
        return (st, set(names), init, props)

    def _hoist_temp_records(self, classes):
        """`K(a).method(b)` - a record object built for one call: `_recN = K(a)` in front of the statement, `_recN.method(b)` in place"""
        def uncond(e, out):
            if isinstance(e, (ast.Lambda, ast.ListComp, ast.SetComp, ast.DictComp, ast.GeneratorExp)):
                return
            if isinstance(e, ast.BoolOp):
                uncond(e.values[0], out)
                return
            if isinstance(e, ast.IfExp):
                uncond(e.test, out)
                return
            out.append(e)
            for c in ast.iter_child_nodes(e):
                if isinstance(c, ast.expr):
                    uncond(c, out)
        for mname, m in self.modules.items():
            for fn in [n for n in ast.walk(m.tree) if isinstance(n, ast.FunctionDef)]:
                for holder in ast.walk(fn):
                    for field in ('body', 'orelse', 'finalbody'):
                        body = getattr(holder, field, None)
                        if not isinstance(body, list):
                            continue
                        i = 0
                        while i < len(body):
                            st = body[i]
                            heads = []
                            if isinstance(st, (ast.Assign, ast.AugAssign, ast.AnnAssign, ast.Expr, ast.Return)) and getattr(st, 'value', None) is not None:
                                heads.append(st.value)
                            elif isinstance(st, ast.If):
                                heads.append(st.test)
                            pre = []
                            for hexpr in heads:
                                nodes = []
                                uncond(hexpr, nodes)
                                for e in nodes:
                                    if isinstance(e, ast.Call) and isinstance(e.func, ast.Attribute) and isinstance(e.func.value, ast.Call) \
                                            and isinstance(e.func.value.func, ast.Name) and (mname, e.func.value.func.id) in classes:
                                        self.counter += 1
                                        tmp = f'_rec{self.counter}'
                                        asg = ast.Assign(targets=[ast.Name(id=tmp, ctx=ast.Store())], value=e.func.value)
                                        pre.append(ast.copy_location(asg, st))
                                        e.func.value = ast.copy_location(ast.Name(id=tmp, ctx=ast.Load()), e.func.value)
                                        self._made_prefixes.add(tmp + '__')
                            for a_ in pre:
                                ast.fix_missing_locations(a_)
                            body[i:i] = pre
                            i += len(pre) + 1

    def _find_records(self):
        classes = self._new_record_classes()
        if not classes:
            return
        for (mname, kname), (cnode, fields, init, props) in classes.items():
            self.helpers[(mname, kname, '__init__')] = _Helper(mname, f'{kname}.__init__', init, kname)
        self._hoist_temp_records(classes)
        self._record_fields = {k: list(self._namedtuple_fields(v[0]) or []) for k, v in classes.items()}
        for mname, m in self.modules.items():
            fns = []
            for st in m.tree.body:
                if isinstance(st, ast.FunctionDef):
                    fns.append(st)
                elif isinstance(st, ast.ClassDef):
                    fns += [s2 for s2 in st.body if isinstance(s2, ast.FunctionDef)]
            for fn in fns:
                parent = {}
                for n in ast.walk(fn):
                    for c in ast.iter_child_nodes(n):
                        parent[id(c)] = n
                stores, ctor = {}, {}
                for n in ast.walk(fn):
                    if isinstance(n, ast.Name) and isinstance(n.ctx, (ast.Store, ast.Del)):
                        stores[n.id] = stores.get(n.id, 0) + 1
                    elif isinstance(n, ast.arg):
                        stores[n.arg] = stores.get(n.arg, 0) + 2
                    elif isinstance(n, (ast.Global, ast.Nonlocal)):
                        for nm in n.names:
                            stores[nm] = stores.get(nm, 0) + 2
                for n in ast.walk(fn):
                    if isinstance(n, ast.Assign) and len(n.targets) == 1 and isinstance(n.targets[0], ast.Name) and isinstance(n.value, ast.Call) \
                            and isinstance(n.value.func, ast.Name) and (mname, n.value.func.id) in classes and stores.get(n.targets[0].id) == 1:
                        ctor[n.targets[0].id] = n.value.func.id
                good = {}
                for v, kname in ctor.items():
                    cnode, fields, _init, props = classes[(mname, kname)]
                    methods = {s2.name for s2 in cnode.body if isinstance(s2, ast.FunctionDef) and not s2.name.startswith('__') and not s2.decorator_list}
                    ok = True
                    nested = [d for d in ast.walk(fn) if d is not fn and isinstance(d, DEFS + (ast.Lambda,))]
                    for n in ast.walk(fn):
                        if isinstance(n, ast.Name) and n.id == v and isinstance(n.ctx, ast.Load):
                            par = parent.get(id(n))
                            if not (isinstance(par, ast.Attribute) and par.value is n):
                                ok = False
                                break
                            gp = parent.get(id(par))
                            is_call = isinstance(gp, ast.Call) and gp.func is par
                            if is_call and par.attr not in methods:
                                ok = False
                            if not is_call and par.attr not in fields and par.attr not in props:
                                ok = False
                            if not is_call and not isinstance(par.ctx, ast.Load) and par.attr in props:
                                ok = False
                            if any(n in ast.walk(d) for d in nested):
                                ok = False
                    if ok:
                        good[v] = (mname, kname)
                        if props:
                            # a property read is its expression with self := v
                            class PT(ast.NodeTransformer):
                                def visit_Attribute(self_, a):
                                    self_.generic_visit(a)
                                    if isinstance(a.value, ast.Name) and a.value.id == v and a.attr in props and isinstance(a.ctx, ast.Load):
                                        sname, expr = props[a.attr]
                                        e2 = copy.deepcopy(expr)
                                        for x in ast.walk(e2):
                                            if isinstance(x, ast.Name) and x.id == sname:
                                                x.id = v
                                        return ast.copy_location(e2, a)
                                    return a
                            for _ in range(2):       # a property may use another one
                                PT().visit(fn)
                if good:
                    self.records[id(fn)] = good
                    self._rec_funcs[id(fn)] = fn

    def _scalarise_records(self):
        """after the constructor and the method calls of a record local were expanded, what is left of it are field accesses `v.a`:
        each becomes the local `v__a` (the record never left the function)"""
        for fid, vars_ in self.records.items():
            fn = self._rec_funcs[fid]
            for v, (mname, kname) in vars_.items():
                parent = {}
                for n in ast.walk(fn):
                    for c in ast.iter_child_nodes(n):
                        parent[id(c)] = n
                uses = [n for n in ast.walk(fn) if isinstance(n, ast.Name) and n.id == v]
                clean = bool(uses) and all(isinstance(parent.get(id(n)), ast.Attribute) and parent[id(n)].value is n and isinstance(n.ctx, ast.Load)
                                            and not (isinstance(parent.get(id(parent[id(n)])), ast.Call) and parent[id(parent[id(n)])].func is parent[id(n)])
                                            for n in uses)
                if not clean:
                    continue

                class Tr(ast.NodeTransformer):
                    def visit_Attribute(self, a):
                        self.generic_visit(a)
                        if isinstance(a.value, ast.Name) and a.value.id == v:
                            return ast.copy_location(ast.Name(id=f'{v}__{a.attr}', ctx=a.ctx), a)
                        return a
                Tr().visit(fn)
                self._made_prefixes.add(v + '__')
                self.log.append(f'{mname}:{fn.name}: record local `{v}` ({kname}) replaced by its fields')

    def _propagate_made_aliases(self):
        """`p__i3 = q` where p__i3 is a name this pass made (a bound parameter of an expanded helper, a field of a dissolved record), bound
        exactly once, and q is a name of the function that is bound at most once: p__i3 *is* q; the copy is removed."""
        import re
        made = re.compile(r'.*__i\d+$')

        def is_made(name):
            return bool(made.match(name)) or any(name.startswith(p) for p in self._made_prefixes)

        def pure(e):
            for n in ast.walk(e):
                if isinstance(n, ast.Call):
                    if not (isinstance(n.func, ast.Name) and n.func.id in ('len', 'min', 'max', 'abs', 'bool', 'int', 'str', 'isinstance') and not n.keywords):
                        return False
                elif not isinstance(n, (ast.Name, ast.Constant, ast.Attribute, ast.BinOp, ast.UnaryOp, ast.Compare, ast.BoolOp, ast.Subscript, ast.Tuple,
                                        ast.operator, ast.unaryop, ast.cmpop, ast.boolop, ast.expr_context)):
                    return False
            return True
        for m in self.modules.values():
            for fn in [n for n in ast.walk(m.tree) if isinstance(n, ast.FunctionDef)]:
                for _ in range(6):
                    stores = {}
                    for n in (x for b in fn.body for x in ast.walk(b)):
                        if isinstance(n, ast.Name) and isinstance(n.ctx, (ast.Store, ast.Del)):
                            stores[n.id] = stores.get(n.id, 0) + 1
                        elif isinstance(n, ast.ExceptHandler) and n.name:
                            stores[n.name] = stores.get(n.name, 0) + 2
                        elif isinstance(n, (ast.Global, ast.Nonlocal)):
                            for nm in n.names:
                                stores[nm] = stores.get(nm, 0) + 2
                    # closures may read a name later: what they mention is left alone
                    for d_ in [n for n in ast.walk(fn) if isinstance(n, DEFS + (ast.Lambda,)) and n is not fn]:
                        for n in ast.walk(d_):
                            if isinstance(n, ast.Name):
                                stores[n.id] = stores.get(n.id, 0) + 5
                            elif isinstance(n, ast.arg):
                                stores[n.arg] = stores.get(n.arg, 0) + 5
                    params = {a.arg for a in ast.walk(fn.args) if isinstance(a, ast.arg)}
                    done = False
                    for holder in ast.walk(fn):
                        for field in ('body', 'orelse', 'finalbody'):
                            body = getattr(holder, field, None)
                            if not isinstance(body, list):
                                continue
                            for i, st in enumerate(body):
                                if isinstance(st, ast.Assign) and len(st.targets) == 1 and isinstance(st.targets[0], ast.Tuple) and \
                                        isinstance(st.value, ast.Tuple) and len(st.value.elts) == len(st.targets[0].elts) and \
                                        all(isinstance(e, ast.Name) for e in st.targets[0].elts) and \
                                        all(isinstance(e, ast.Name) or (pure(e) and not any(isinstance(x_, ast.Call) for x_ in ast.walk(e))) for e in st.value.elts) and \
                                        any(is_made(e.id) for e in st.targets[0].elts + [v_ for v_ in st.value.elts if isinstance(v_, ast.Name)]) and \
                                        not ({e.id for e in st.targets[0].elts} & {x_.id for v_ in st.value.elts for x_ in ast.walk(v_) if isinstance(x_, ast.Name)}):
                                    # `a, b = (p__i1, q__i1)`: two plain copies
                                    body[i:i + 1] = [ast.copy_location(ast.Assign(targets=[t_], value=v_), st) for t_, v_ in zip(st.targets[0].elts, st.value.elts)]
                                    done = True
                                    break
                                if isinstance(st, ast.Assign) and len(st.targets) == 1 and isinstance(st.targets[0], ast.Name) and is_made(st.targets[0].id) \
                                        and not isinstance(st.value, ast.Name) and pure(st.value) and i + 1 < len(body) and stores.get(st.targets[0].id) == 1:
                                    # `n__i2 = len(part)` read once, by the statement that follows: the expression in place of the name
                                    t = st.targets[0].id
                                    loads = [n for n in ast.walk(fn) if isinstance(n, ast.Name) and n.id == t and isinstance(n.ctx, ast.Load)]
                                    nxt = body[i + 1]
                                    heads = [nxt] if isinstance(nxt, (ast.Assign, ast.AugAssign, ast.Expr, ast.Return)) else \
                                        ([nxt.test] if isinstance(nxt, ast.If) else [])
                                    if len(loads) == 1 and heads and any(n is loads[0] for h_ in heads for n in ast.walk(h_)):
                                        _replace_node(nxt, loads[0], copy.deepcopy(st.value))
                                        del body[i]
                                        done = True
                                        break
                                if isinstance(st, ast.Assign) and len(st.targets) == 1 and isinstance(st.targets[0], ast.Name) and isinstance(st.value, ast.Name):
                                    t, q = st.targets[0].id, st.value.id
                                    if is_made(t) and stores.get(t) == 1 and t not in params and t != q and \
                                            ((q in params and not stores.get(q)) or (q not in params and stores.get(q) == 1)):
                                        for n in ast.walk(fn):
                                            if isinstance(n, ast.Name) and n.id == t and isinstance(n.ctx, ast.Load):
                                                n.id = q
                                        del body[i]
                                        if not body:
                                            body.append(ast.copy_location(ast.Pass(), st))
                                        done = True
                                        break
                                    if is_made(q) and stores.get(q) == 1 and q not in params and t != q and \
                                            sum(1 for n in ast.walk(fn) if isinstance(n, ast.Name) and n.id == q and isinstance(n.ctx, ast.Load)) == 1:
                                        # `q__i1 = E; ...; t = q__i1` in one block, nothing in between mentions t: `t = E` where q__i1 was bound
                                        js = [j for j in range(i) if isinstance(body[j], ast.Assign) and len(body[j].targets) == 1
                                              and isinstance(body[j].targets[0], ast.Name) and body[j].targets[0].id == q]
                                        if js and not any(isinstance(n, ast.Name) and n.id == t for b_ in body[js[-1] + 1:i] for n in ast.walk(b_)):
                                            body[js[-1]].targets[0].id = t
                                            del body[i]
                                            done = True
                                            break
                                        # ... the made name bound as one element of an unpacking target
                                        jt = [j for j in range(i) if isinstance(body[j], ast.Assign) and len(body[j].targets) == 1 and isinstance(body[j].targets[0], ast.Tuple)
                                              and any(isinstance(e, ast.Name) and e.id == q for e in body[j].targets[0].elts)]
                                        if jt and not any(isinstance(e, ast.Name) and e.id == t for e in body[jt[-1]].targets[0].elts) and \
                                                not any(isinstance(n, ast.Name) and n.id == t for b_ in body[jt[-1] + 1:i] for n in ast.walk(b_)) and \
                                                not any(isinstance(n, ast.Name) and n.id == t for n in ast.walk(body[jt[-1]].value)):
                                            for e in body[jt[-1]].targets[0].elts:
                                                if isinstance(e, ast.Name) and e.id == q:
                                                    e.id = t
                                            del body[i]
                                            done = True
                                            break
                                    if is_made(t) and is_made(q) and stores.get(t) == 1 and t not in params and t != q and stores.get(q, 0) < 5:
                                        # a made copy of a made name: read the original, as long as it is not rebound behind the copy and every read of the copy follows it
                                        later = body[i + 1:]
                                        loads_t = [n for n in ast.walk(fn) if isinstance(n, ast.Name) and n.id == t and isinstance(n.ctx, ast.Load)]
                                        later_ids = {id(n) for b_ in later for n in ast.walk(b_)}
                                        if loads_t and all(id(n) in later_ids for n in loads_t) and \
                                                not any(isinstance(n, ast.Name) and n.id == q and isinstance(n.ctx, (ast.Store, ast.Del)) for b_ in later for n in ast.walk(b_)) and \
                                                not any(isinstance(h_, LOOPS) and any(st is x for x in ast.walk(h_)) for h_ in ast.walk(fn)):
                                            for n in loads_t:
                                                n.id = q
                                            del body[i]
                                            done = True
                                            break
                                    if is_made(q) and not is_made(t) and stores.get(t) == 1 and stores.get(q) == 1 and t not in params and q not in params and t != q:
                                        # the made name is given the name of its only copy
                                        del body[i]
                                        if not body:
                                            body.append(ast.copy_location(ast.Pass(), st))
                                        for n in ast.walk(fn):
                                            if isinstance(n, ast.Name) and n.id == q:
                                                n.id = t
                                        done = True
                                        break
                            if done:
                                break
                        if done:
                            break
                    if not done:
                        break

    def _drop_fully_inlined(self):
        for (mname, cname, name), h in self.helpers.items():
            if not self.inlined_sites.get((mname, cname, name)):
                continue
            # any remaining mention of the helper's name anywhere in the package keeps it
            remaining = False
            for m in self.modules.values():
                for n in ast.walk(m.tree):
                    if n is h.node:
                        continue
                    if isinstance(n, ast.Name) and n.id == name and cname is None:
                        remaining = True
                    elif isinstance(n, ast.Attribute) and n.attr == name:
                        remaining = True
                    elif isinstance(n, ast.alias) and n.name == name:
                        remaining = True
                    elif isinstance(n, ast.Constant) and n.value == name:
                        remaining = True
                if remaining:
                    break
            if remaining:
                continue
            tree = self.modules[mname].tree
            if cname is None:
                tree.body = [s for s in tree.body if s is not h.node]
            else:
                for st in tree.body:
                    if isinstance(st, ast.ClassDef) and st.name == cname:
                        st.body = [s for s in st.body if s is not h.node] or [ast.Pass()]
            self.log.append(f'{mname}:{h.qual} inlined at {self.inlined_sites[(mname, cname, name)]} call site(s)')


def _inside_inner_loop(n, outer):
    """the break / continue `n` belongs to a loop nested inside `outer` (not to `outer` itself)"""
    def find(node, stack):
        if node is n:
            return stack
        for c in ast.iter_child_nodes(node):
            r = find(c, stack + ([node] if isinstance(node, LOOPS) else []))
            if r is not None:
                return r
        return None
    st = find(outer, [])
    return st is not None and len(st) > 1


def _replace_node(root, old, new):
    for parent in ast.walk(root):
        for field, val in ast.iter_fields(parent):
            if val is old:
                setattr(parent, field, new)
                return True
            if isinstance(val, list):
                for i, x in enumerate(val):
                    if x is old:
                        val[i] = new
                        return True
    return False
